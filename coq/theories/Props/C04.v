(* C04 — Withdrawal pays the pro-rata share: never more, at most dust less.
   Function level (this block): the arithmetic of withdraw_liquidity (Decimal::from_ratio(a, T), reserve * ratio).
   System level (ledger effect, burn of exactly a, nobody else touched) is stated over the world model. *)
From HT Require Import Base.Prelude Num.Arith Amm.Formulas Amm.Guards World.World Proofs.LiquidityProofs Proofs.LedgerProofs.

(* r_i*a/T - r_i/10^18 - 1 < x_i <= r_i*a/T, cross-multiplied *)
Theorem C04_fn :
  forall r0 r1 a T x0 x1 : N,
    withdraw_amounts r0 r1 a T = Ok (x0, x1) ->
    (x0 * T <= r0 * a /\ r0 * a * D < (x0 + 1) * T * D + r0 * T) /\
    (x1 * T <= r1 * a /\ r1 * a * D < (x1 + 1) * T * D + r1 * T).
Proof. exact withdraw_bounds. Qed.

Theorem C04_le_reserve :
  forall r0 r1 a T x0 x1 : N,
    withdraw_amounts r0 r1 a T = Ok (x0, x1) -> a <= T -> x0 <= r0 /\ x1 <= r1.
Proof. exact withdraw_le_reserve. Qed.

(* the arithmetic never aborts for a <= T, T > 0 (used by C20) *)
Theorem C04_total :
  forall r0 r1 a T : N,
    r0 < W128 -> r1 < W128 -> T <> 0 -> a <= T ->
    exists x0 x1, withdraw_amounts r0 r1 a T = Ok (x0, x1).
Proof. exact withdraw_total. Qed.

Example C04_nonvacuous : withdraw_amounts 1000000 3000001 333 1000 = Ok (333000, 999000).
Proof. vm_compute. reflexivity. Qed.

(* ---- system level: the withdrawal handler on the world model ---- *)
Theorem C04_structure : forall w p ps sender amount w', pair_withdraw w p ps sender amount = Ok w' ->
  exists total x0 x1 w1 w2,
    token_supply w (p_lp ps) = Ok total /\
    withdraw_amounts (bal w (p_a0 ps) p) (bal w (p_a1 ps) p) amount total = Ok (x0, x1) /\
    pay_asset w p (p_a0 ps) x0 sender = Ok w1 /\ pay_asset w1 p (p_a1 ps) x1 sender = Ok w2 /\
    with_token w2 (p_lp ps) (fun t => tok_burn t p amount) = Ok w'.
Proof. exact pair_withdraw_structure. Qed.
(* pays x_i to the holder out of the pair, burns exactly [amount] of supply out of the pair's LP
   balance (which the holder's Send just delivered), and takes nothing from anyone else *)
Theorem C04_sys : forall w p ps sender amount w', pair_withdraw w p ps sender amount = Ok w' ->
  asset_eqb (p_a0 ps) (p_a1 ps) = false -> asset_eqb (p_a0 ps) (AToken (p_lp ps)) = false ->
  asset_eqb (p_a1 ps) (AToken (p_lp ps)) = false -> sender <> p ->
  exists total x0 x1,
    token_supply w (p_lp ps) = Ok total /\
    withdraw_amounts (bal w (p_a0 ps) p) (bal w (p_a1 ps) p) amount total = Ok (x0, x1) /\
    supply w' (p_lp ps) + amount = total /\
    bal w' (AToken (p_lp ps)) p + amount = bal w (AToken (p_lp ps)) p /\
    bal w' (p_a0 ps) sender = bal w (p_a0 ps) sender + x0 /\ bal w' (p_a0 ps) p + x0 = bal w (p_a0 ps) p /\
    bal w' (p_a1 ps) sender = bal w (p_a1 ps) sender + x1 /\ bal w' (p_a1 ps) p + x1 = bal w (p_a1 ps) p /\
    (forall z a, a <> p -> a <> sender -> bal w' z a = bal w z a).
Proof. exact pair_withdraw_effect. Qed.

Print Assumptions C04_structure.
Print Assumptions C04_sys.
Print Assumptions C04_fn.
Print Assumptions C04_le_reserve.
Print Assumptions C04_total.
Print Assumptions C04_nonvacuous.

From HT Require Import Proofs.WFProofs Proofs.TxEffectProofs.
Theorem C04_tx : forall w p ps holder a w',
  WF w -> w_pairs w p = Some ps -> holder <> p -> holder <> p_lp ps ->
  exec w (OSend (p_lp ps) holder p a HWithdraw) = Ok w' ->
  exists total x0 x1,
    token_supply w (p_lp ps) = Ok total /\
    withdraw_amounts (bal w (p_a0 ps) p) (bal w (p_a1 ps) p) a total = Ok (x0, x1) /\
    supply w' (p_lp ps) + a = total /\
    bal w' (AToken (p_lp ps)) holder + a = bal w (AToken (p_lp ps)) holder /\
    bal w' (AToken (p_lp ps)) p = bal w (AToken (p_lp ps)) p /\
    bal w' (p_a0 ps) holder = bal w (p_a0 ps) holder + x0 /\ bal w' (p_a0 ps) p + x0 = bal w (p_a0 ps) p /\
    bal w' (p_a1 ps) holder = bal w (p_a1 ps) holder + x1 /\ bal w' (p_a1 ps) p + x1 = bal w (p_a1 ps) p /\
    (forall z c, c <> p -> c <> holder -> bal w' z c = bal w z c).
Proof. exact tx_withdraw_effect. Qed.
Print Assumptions C04_tx.

From HT Require Import Amm.Known World.World Proofs.WFProofs Proofs.ReachProofs Proofs.SolventProofs Proofs.ReachCorollaries.
Theorem C04_tx_reachable : forall w0 w p ps holder a w',
  WF w0 -> Solvent w0 -> reachable w0 w ->
  w_pairs w p = Some ps -> holder <> p -> holder <> p_lp ps ->
  exec w (OSend (p_lp ps) holder p a HWithdraw) = Ok w' ->
  exists total x0 x1,
    token_supply w (p_lp ps) = Ok total /\
    withdraw_amounts (bal w (p_a0 ps) p) (bal w (p_a1 ps) p) a total = Ok (x0, x1) /\
    supply w' (p_lp ps) + a = total /\
    bal w' (AToken (p_lp ps)) holder + a = bal w (AToken (p_lp ps)) holder /\
    bal w' (AToken (p_lp ps)) p = bal w (AToken (p_lp ps)) p /\
    bal w' (p_a0 ps) holder = bal w (p_a0 ps) holder + x0 /\ bal w' (p_a0 ps) p + x0 = bal w (p_a0 ps) p /\
    bal w' (p_a1 ps) holder = bal w (p_a1 ps) holder + x1 /\ bal w' (p_a1 ps) p + x1 = bal w (p_a1 ps) p /\
    (forall z c, c <> p -> c <> holder -> bal w' z c = bal w z c) /\
    (* the pro-rata sandwich: r_i*a/total - r_i/10^18 - 1 < x_i <= r_i*a/total *)
    (x0 * total <= bal w (p_a0 ps) p * a /\
     bal w (p_a0 ps) p * a * D < (x0 + 1) * total * D + bal w (p_a0 ps) p * total) /\
    (x1 * total <= bal w (p_a1 ps) p * a /\
     bal w (p_a1 ps) p * a * D < (x1 + 1) * total * D + bal w (p_a1 ps) p * total).
Proof. exact withdraw_tx_reachable. Qed.
Print Assumptions C04_tx_reachable.
