(* C06 — Swap output is the constant-product price less commission, within one unit.
   This file contains only the property theorems, each closed by [exact], a
   [Check] pinning its statement and [Print Assumptions]. *)
From HT Require Import Base.Prelude Num.Arith Amm.Formulas Proofs.SwapSpec Proofs.SwapProofs.

(* g(1-c) - 1 < n < g(1-c) + 1 with g = y*a/(x+a); both sides multiplied by D*(x+a),
   c in atomics of 10^-18. *)
Theorem C06_band :
  forall x y a c n s m : N,
    x < W128 -> y < W128 -> a < W128 -> c <= D ->
    compute_swap x y a c = Ok (n, s, m) ->
    n * D * (x + a) < y * a * (D - c) + D * (x + a) /\
    y * a * (D - c) < n * D * (x + a) + D * (x + a).
Proof. exact swap_band. Qed.

(* the reported commission equals floor(c * (n + commission)) *)
Theorem C06_commission :
  forall x y a c n s m : N,
    x < W128 -> y < W128 -> a < W128 -> c <= D ->
    compute_swap x y a c = Ok (n, s, m) ->
    m = c * (n + m) / D.
Proof. exact swap_commission. Qed.

(* ... and stays in the pool: return + commission never exceeds the ask reserve *)
Theorem C06_commission_stays :
  forall x y a c n s m : N,
    x < W128 -> y < W128 -> a < W128 -> c <= D ->
    compute_swap x y a c = Ok (n, s, m) ->
    n + m <= y.
Proof. exact swap_paid_le. Qed.

(* n + commission + spread = floor(a*y/x) *)
Theorem C06_sum :
  forall x y a c n s m : N,
    x < W128 -> y < W128 -> a < W128 -> c <= D ->
    compute_swap x y a c = Ok (n, s, m) ->
    n + m + s = a * y / x.
Proof. exact swap_sum. Qed.

(* the output never decreases when the offer grows *)
Theorem C06_mono :
  forall x y a a' c n s m n' s' m' : N,
    x < W128 -> y < W128 -> a < W128 -> a' < W128 -> c <= D -> a <= a' ->
    compute_swap x y a c = Ok (n, s, m) ->
    compute_swap x y a' c = Ok (n', s', m') ->
    n <= n'.
Proof. exact swap_mono. Qed.

(* exactly when the function aborts *)
Theorem C06_ok_iff :
  forall x y a c : N,
    x < W128 -> y < W128 -> a < W128 -> c <= D ->
    (is_ok (compute_swap x y a c) = true <->
     x <> 0 /\ x * y * D < W256 /\ y * a * D < W256 /\
     gross x y a <= ideal x y a /\ ideal x y a - gross x y a < W128).
Proof. exact swap_ok_iff. Qed.

(* non-vacuity: the repository's own scenario satisfies every hypothesis *)
Example C06_nonvacuous :
  30000000000 < W128 /\ 20000000000 < W128 /\ 1500000000 < W128 /\ 3000000000000000 <= D /\
  compute_swap 30000000000 20000000000 1500000000 3000000000000000
    = Ok (949523810, 47619048, 2857142).
Proof. repeat split; try (vm_compute; reflexivity); vm_compute; discriminate. Qed.

Print Assumptions C06_band.
Print Assumptions C06_commission.
Print Assumptions C06_commission_stays.
Print Assumptions C06_sum.
Print Assumptions C06_mono.
Print Assumptions C06_ok_iff.
Print Assumptions C06_nonvacuous.

From HT Require Import World.World World.Observe Proofs.WFProofs Proofs.PairConfigProofs.
Theorem C06_rate_fixed_at_creation : forall ops w caller a0 a1 wl m0 m1 comm ld w',
  WF w -> exec w (OFacCreatePair caller a0 a1 wl m0 m1 comm ld) = Ok w' ->
  exists ps, w_pairs (run w' ops) (w_next w) = Some ps /\
    p_comm ps = (match comm with Some c => c | None => DEFAULT_COMMISSION end) /\ p_a0 ps = a0 /\ p_a1 ps = a1.
Proof. exact rate_fixed_at_creation. Qed.
Print Assumptions C06_rate_fixed_at_creation.

Theorem C06_create_pair_sets_rate : forall w caller a0 a1 wl m0 m1 comm ld w',
  exec w (OFacCreatePair caller a0 a1 wl m0 m1 comm ld) = Ok w' ->
  exists ps, w_pairs w' (w_next w) = Some ps /\
    p_comm ps = (match comm with Some c => c | None => DEFAULT_COMMISSION end) /\ p_comm ps <= D /\
    p_a0 ps = a0 /\ p_a1 ps = a1 /\ p_min0 ps = m0 /\ p_min1 ps = m1 /\ p_wl ps = wl.
Proof. exact create_pair_sets_rate. Qed.
Print Assumptions C06_create_pair_sets_rate.

Theorem C06_rate_never_changes : forall ops w p ps,
  WF w -> w_pairs w p = Some ps ->
  exists ps', w_pairs (run w ops) p = Some ps' /\ same_pair_config ps ps'.
Proof. exact run_keeps_pair_config. Qed.
Print Assumptions C06_rate_never_changes.

Theorem C06_rate_example :
  WF pc_w0 /\
  all_ok pc_w0 (pc_setup ++ pc_later) = true /\
  pc_view (run pc_w0 pc_setup) 4 = Some (ANative 0, AToken 2, 5, 2375000000000000, 6, 6) /\
  pc_view (run pc_w0 (pc_setup ++ pc_later)) 4 = Some (ANative 0, AToken 2, 5, 2375000000000000, 8, 6) /\
  (* the swap was priced with that rate: 5000 in, 4964 out, commission 11 = floor(4975 * 0.002375) *)
  w_bank (run pc_w0 (pc_setup ++ pc_later)) 4 0 = 1005000 /\
  asset_balance (run pc_w0 (pc_setup ++ pc_later)) (AToken 2) 4 = Ok 995036 /\
  q_simulation (run pc_w0 pc_setup) 4 (ANative 0) 5000 = Ok (4964, 25, 11).
Proof. exact pair_config_example. Qed.
Print Assumptions C06_rate_example.
