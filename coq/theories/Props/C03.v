(* C03 — LP share value never decreases over any history.
   Abstract pool state (r0, r1, T): the pair's two actual reserves and the LP supply.  Every way a
   pair's reserves or supply can move is a [pool_step] kind whose arithmetic premises are what the
   function-level theorems establish; [C03_hist_abstract] is the induction over any finite sequence of
   such steps.  PARTIAL: that each world transaction acts on each pair as a sequence of pool steps is
   established per operation by the ledger lemmas (C02/C04/C05 blocks) and monitored on the real code
   at every step of every history; a single theorem over [run] is not proved.
   Known finding KF-ceil-window: a swap inside [kf_c01] lowers the value ([C03_refuted]). *)
From HT Require Import Base.Prelude Num.Arith Amm.Formulas Amm.Known Proofs.ValueProofs Proofs.ValueLinks.

Theorem C03_step : forall s s', pool_step s s' -> 0 < supply_of s -> value_le s s' /\ 0 < supply_of s'.
Proof. exact pool_step_value. Qed.

Theorem C03_hist_abstract : forall s s', pool_steps s s' -> 0 < supply_of s -> value_le s s' /\ 0 < supply_of s'.
Proof. exact pool_steps_value. Qed.

Theorem C03_provision_is_step : forall (wl : bool) min0 min1 T d0 d1 r0 r1 m,
  T <> 0 -> lp_share wl min0 min1 T d0 d1 r0 r1 = Ok m -> pool_step (r0, r1, T) (r0 + d0, r1 + d1, T + m).
Proof. exact provide_is_pool_step. Qed.
Theorem C03_withdrawal_is_step : forall r0 r1 a T x0 x1,
  a < T -> withdraw_amounts r0 r1 a T = Ok (x0, x1) -> pool_step (r0, r1, T) (r0 - x0, r1 - x1, T - a).
Proof. exact withdraw_is_pool_step. Qed.
Theorem C03_swap_is_step : forall x y a c n s m T,
  x < W128 -> y < W128 -> a < W128 -> c <= D ->
  compute_swap x y a c = Ok (n, s, m) -> kf_c01 x y a c = false ->
  pool_step (x, y, T) (x + a, y - n, T) /\ pool_step (y, x, T) (y - n, x + a, T).
Proof. exact swap_is_pool_step. Qed.
Theorem C03_value_le_trans : forall s1 s2 s3,
  0 < supply_of s1 -> 0 < supply_of s2 -> 0 < supply_of s3 -> value_le s1 s2 -> value_le s2 s3 -> value_le s1 s3.
Proof. exact value_le_trans. Qed.

Theorem C03_refuted :
  exists x y a c n s m T, x < W128 /\ y < W128 /\ a < W128 /\ c <= D /\ 0 < T /\
    compute_swap x y a c = Ok (n, s, m) /\ ~ value_le (x, y, T) (x + a, y - n, T).
Proof. exact value_refuted. Qed.

Example C03_nonvacuous :
  pool_steps (1000, 4000, 2000) (1000 + 100 + 200, 4000 + 400 - 400, 2000 + 200) /\ 0 < supply_of (1000, 4000, 2000).
Proof.
  split; [|reflexivity].
  apply pss_cons with (1000 + 100, 4000 + 400, 2000 + 200).
  - apply ps_provide; lia.
  - apply pss_cons with (1000 + 100 + 200, 4000 + 400 - 400, 2000 + 200).
    + apply ps_swap01; lia.
    + apply pss_nil.
Qed.

Print Assumptions C03_step.
Print Assumptions C03_hist_abstract.
Print Assumptions C03_provision_is_step.
Print Assumptions C03_withdrawal_is_step.
Print Assumptions C03_swap_is_step.
Print Assumptions C03_value_le_trans.
Print Assumptions C03_refuted.
Print Assumptions C03_nonvacuous.
