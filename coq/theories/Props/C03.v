(* C03 — LP share value never decreases over any history.
   Abstract pool state (r0, r1, T): the pair's two actual reserves and the LP supply.  Every way a
   pair's reserves or supply can move is a [pool_step] kind whose arithmetic premises are what the
   function-level theorems establish; [C03_hist_abstract] is the induction over any finite sequence of
   such steps.  System level (second half of the file, from Proofs/ValueHistProofs.v): every successful
   user-submitted transaction moves every pair's (reserve0, reserve1, supply) along a finite path of
   abstract steps, each a value-non-decreasing [pool_step] or a swap in the recorded class ([C03_tx_path],
   [C03_history_path] over [run]); operations that cannot swap never lower any pair's value, over any
   history ([C03_swapless_tx], [C03_swapless_history]); a direct swap (either entry point) outside the class
   never lowers any pair's value ([C03_direct_swap_tx], [C03_hook_swap_tx]).  Assembled ([C03_history], from
   Proofs/ValueHistProofs2.v): over ANY history of user-submitted operations - provisions, withdrawals, swaps by
   either entry point, router routes of any length, donations, transfers, mints, burns, factory calls, rejected
   calls - from a well-formed, solvent start, in which no SUCCESSFUL swap (direct, hooked, or a hop of a route,
   judged on the reserves at the moment it is priced) falls in the recorded class [kf_c01], the value of every
   pair with positive supply never decreases and the supply stays positive.  ([C03_tx_path]'s bare path
   statement is permissive - [path_true_is_permissive] - and is kept only as the structural half.)
   Known finding KF-ceil-window: a swap inside [kf_c01] lowers the value ([C03_refuted]). *)
From HT Require Import Base.Prelude Num.Arith Amm.Formulas Amm.Guards Amm.Known World.World Proofs.ValueProofs Proofs.ValueLinks Proofs.LedgerProofs Proofs.SystemPoolProofs.

Theorem C03_step : forall s s', pool_step s s' -> 0 < supply_of s -> value_le s s' /\ 0 < supply_of s'.
Proof. exact pool_step_value. Qed.

Theorem C03_hist_abstract : forall s s', pool_steps s s' -> 0 < supply_of s -> value_le s s' /\ 0 < supply_of s'.
Proof. exact pool_steps_value. Qed.

Theorem C03_provision_is_step : forall (wl : bool) min0 min1 T d0 d1 r0 r1 m,
  T <> 0 -> lp_share wl min0 min1 T d0 d1 r0 r1 = Ok m -> pool_step (r0, r1, T) (r0 + d0, r1 + d1, T + m).
Proof. exact provide_is_pool_step. Qed.
Theorem C03_withdrawal_is_step : forall r0 r1 a T x0 x1,
  a < T -> withdraw_amounts r0 r1 a T = Ok (x0, x1) -> pool_step (r0, r1, T) (r0 - x0, r1 - x1, T - a).
Proof. exact withdraw_is_pool_step. Qed.
Theorem C03_swap_is_step : forall x y a c n s m T,
  x < W128 -> y < W128 -> a < W128 -> c <= D ->
  compute_swap x y a c = Ok (n, s, m) -> kf_c01 x y a c = false ->
  pool_step (x, y, T) (x + a, y - n, T) /\ pool_step (y, x, T) (y - n, x + a, T).
Proof. exact swap_is_pool_step. Qed.
Theorem C03_value_le_trans : forall s1 s2 s3,
  0 < supply_of s1 -> 0 < supply_of s2 -> 0 < supply_of s3 -> value_le s1 s2 -> value_le s2 s3 -> value_le s1 s3.
Proof. exact value_le_trans. Qed.

Theorem C03_refuted :
  exists x y a c n s m T, x < W128 /\ y < W128 /\ a < W128 /\ c <= D /\ 0 < T /\
    compute_swap x y a c = Ok (n, s, m) /\ ~ value_le (x, y, T) (x + a, y - n, T).
Proof. exact value_refuted. Qed.

Example C03_nonvacuous :
  pool_steps (1000, 4000, 2000) (1000 + 100 + 200, 4000 + 400 - 400, 2000 + 200) /\ 0 < supply_of (1000, 4000, 2000).
Proof.
  split; [|reflexivity].
  apply pss_cons with (1000 + 100, 4000 + 400, 2000 + 200).
  - apply ps_provide; lia.
  - apply pss_cons with (1000 + 100 + 200, 4000 + 400 - 400, 2000 + 200).
    + apply ps_swap01; lia.
    + apply pss_nil.
Qed.

(* ---- system level: the pair handlers of the world model are pool steps on the actual balances ---- *)
Theorem C03_sys_swap : forall w p ps funds sender offer amount bp ms to w' ret spread comm T,
  pair_swap w p ps funds sender offer amount bp ms to = Ok (w', (ret, spread, comm)) ->
  let ask := if asset_eqb offer (p_a0 ps) then p_a1 ps else p_a0 ps in
  let rcv := match to with Some t => t | None => sender end in
  asset_eqb (p_a0 ps) (p_a1 ps) = false -> rcv <> p ->
  bal w offer p < W128 -> bal w ask p < W128 -> amount < W128 -> p_comm ps <= D ->
  kf_c01 (bal w offer p - amount) (bal w ask p) amount (p_comm ps) = false ->
  pool_step (bal w offer p - amount, bal w ask p, T) (bal w' offer p, bal w' ask p, T).
Proof. exact pair_swap_pool_step. Qed.
Theorem C03_sys_withdraw : forall w p ps sender amount w' total,
  pair_withdraw w p ps sender amount = Ok w' ->
  asset_eqb (p_a0 ps) (p_a1 ps) = false -> asset_eqb (p_a0 ps) (AToken (p_lp ps)) = false ->
  asset_eqb (p_a1 ps) (AToken (p_lp ps)) = false -> sender <> p ->
  token_supply w (p_lp ps) = Ok total -> amount < total ->
  pool_step (bal w (p_a0 ps) p, bal w (p_a1 ps) p, total)
            (bal w' (p_a0 ps) p, bal w' (p_a1 ps) p, supply w' (p_lp ps)).
Proof. exact pair_withdraw_pool_step. Qed.
Theorem C03_sys_provide : forall w p ps c funds l0 n0 l1 n1 tol rcv w' total,
  pair_provide w p ps c funds l0 n0 l1 n1 tol rcv = Ok w' ->
  asset_eqb (p_a0 ps) (p_a1 ps) = false -> asset_eqb (p_a0 ps) (AToken (p_lp ps)) = false ->
  asset_eqb (p_a1 ps) (AToken (p_lp ps)) = false -> c <> p ->
  token_supply w (p_lp ps) = Ok total -> total <> 0 ->
  exists d0 d1 q0 q1,
    (q0 = if asset_is_native (p_a0 ps) then bal w (p_a0 ps) p - d0 else bal w (p_a0 ps) p) /\
    (q1 = if asset_is_native (p_a1 ps) then bal w (p_a1 ps) p - d1 else bal w (p_a1 ps) p) /\
    bal w' (p_a0 ps) p = q0 + d0 /\ bal w' (p_a1 ps) p = q1 + d1 /\
    pool_step (q0, q1, total) (bal w' (p_a0 ps) p, bal w' (p_a1 ps) p, supply w' (p_lp ps)).
Proof. exact pair_provide_pool_step. Qed.

Print Assumptions C03_sys_swap.
Print Assumptions C03_sys_withdraw.
Print Assumptions C03_sys_provide.
Print Assumptions C03_step.
Print Assumptions C03_hist_abstract.
Print Assumptions C03_provision_is_step.
Print Assumptions C03_withdrawal_is_step.
Print Assumptions C03_swap_is_step.
Print Assumptions C03_value_le_trans.
Print Assumptions C03_refuted.
Print Assumptions C03_nonvacuous.

From HT Require Import World.Observe Proofs.WFProofs Proofs.SolventProofs Proofs.LockedProofs Proofs.ValueHistProofs.
Theorem C03_path_false_value : forall s s', path false s s' -> 0 < supply_of s -> value_le s s' /\ 0 < supply_of s'.
Proof. exact path_false_value. Qed.
Print Assumptions C03_path_false_value.

Theorem C03_swapless_history : forall ops w p ps,
  WF w -> Solvent w -> Inert' w -> user_ops w ops -> w_next (run w ops) <= 1000 ->
  Forall (fun o => swapless o = true) ops ->
  w_pairs w p = Some ps -> 0 < supply w (p_lp ps) ->
  value_le (pool_at w p ps) (pool_at (run w ops) p ps) /\ 0 < supply (run w ops) (p_lp ps).
Proof. exact run_swapless_value. Qed.
Print Assumptions C03_swapless_history.

Theorem C03_direct_swap_tx : forall w p' ps' c d amount bp ms to w' p ps,
  WF w -> Solvent w -> Inert' w -> ~ is_contract w c -> w_pairs w p' = Some ps' ->
  kf_c01 (bal w (ANative d) p') (bal w (if asset_eqb (ANative d) (p_a0 ps') then p_a1 ps' else p_a0 ps') p')
         amount (p_comm ps') = false ->
  exec w (OSwap p' c [(d, amount)] (ANative d) amount bp ms to) = Ok w' ->
  w_pairs w p = Some ps -> 0 < supply w (p_lp ps) ->
  path false (pool_at w p ps) (pool_at w' p ps).
Proof. exact exec_direct_swap_value_variant. Qed.
Print Assumptions C03_direct_swap_tx.

Theorem C03_direct_swap_tx_funds : forall w p' ps' c funds offer amount bp ms to w' p ps,
  WF w -> Solvent w -> Inert' w -> ~ is_contract w c -> w_pairs w p' = Some ps' ->
  (forall w1, move_funds w c p' funds = Ok w1 ->
     kf_c01 (bal w1 offer p' - amount) (bal w1 (if asset_eqb offer (p_a0 ps') then p_a1 ps' else p_a0 ps') p')
            amount (p_comm ps') = false) ->
  exec w (OSwap p' c funds offer amount bp ms to) = Ok w' ->
  w_pairs w p = Some ps -> 0 < supply w (p_lp ps) ->
  path false (pool_at w p ps) (pool_at w' p ps).
Proof. exact exec_direct_swap_value_funds. Qed.
Print Assumptions C03_direct_swap_tx_funds.

Theorem C03_hook_swap_tx : forall w ta sender p' ps' n offer amount bp ms to w' p ps,
  WF w -> Solvent w -> Inert' w -> ~ is_contract w sender -> w_pairs w p' = Some ps' ->
  kf_c01 (bal w offer p') (bal w (if asset_eqb offer (p_a0 ps') then p_a1 ps' else p_a0 ps') p')
         amount (p_comm ps') = false ->
  exec w (OSend ta sender p' n (HSwap offer amount bp ms to)) = Ok w' ->
  w_pairs w p = Some ps -> 0 < supply w (p_lp ps) ->
  path false (pool_at w p ps) (pool_at w' p ps).
Proof. exact exec_hook_swap_value. Qed.
Print Assumptions C03_hook_swap_tx.

Theorem C03_tx_path : forall w o w' p ps,
  WF w -> Solvent w -> Inert' w -> w_pairs w (w_rtr w) = None -> ~ is_contract w (caller_of o) ->
  exec w o = Ok w' -> w_pairs w p = Some ps -> 0 < supply w (p_lp ps) ->
  exists b, path b (pool_at w p ps) (pool_at w' p ps).
Proof. exact exec_pool_path_variant. Qed.
Print Assumptions C03_tx_path.

Theorem C03_tx_path_flag : forall w o w' p ps,
  WF w -> Solvent w -> Inert' w -> ~ is_contract w (caller_of o) ->
  (routerless o = false -> w_pairs w (w_rtr w) = None) ->
  exec w o = Ok w' -> w_pairs w p = Some ps -> 0 < supply w (p_lp ps) ->
  exists b, path_at (p_comm ps) b (pool_at w p ps) (pool_at w' p ps) /\ (swapless o = true -> b = false).
Proof. exact exec_pool_path_flag. Qed.
Print Assumptions C03_tx_path_flag.

Theorem C03_history_path : forall ops w p ps,
  WF w -> Solvent w -> Inert' w -> w_pairs w (w_rtr w) = None -> user_ops w ops -> w_next (run w ops) <= 1000 ->
  w_pairs w p = Some ps -> 0 < supply w (p_lp ps) ->
  exists b, path b (pool_at w p ps) (pool_at (run w ops) p ps).
Proof. exact run_pool_path_variant. Qed.
Print Assumptions C03_history_path.

Theorem C03_history_path_flag : forall ops w p ps,
  WF w -> Solvent w -> Inert' w -> user_ops w ops -> w_next (run w ops) <= 1000 ->
  (Forall (fun o => routerless o = true) ops \/ w_pairs w (w_rtr w) = None) ->
  w_pairs w p = Some ps -> 0 < supply w (p_lp ps) ->
  exists b, path_at (p_comm ps) b (pool_at w p ps) (pool_at (run w ops) p ps) /\
            (Forall (fun o => swapless o = true) ops -> b = false).
Proof. exact run_pool_path_flag. Qed.
Print Assumptions C03_history_path_flag.

Theorem C03_router_must_not_be_pair :
  exists w o w' p ps,
    WF w /\ Solvent w /\ Inert' w /\ ~ is_contract w (caller_of o) /\ exec w o = Ok w' /\
    w_pairs w p = Some ps /\ 0 < supply w (p_lp ps) /\
    pool_at w p ps = (1000000, 1000000, 1000000) /\ pool_at w' p ps = (0, 1000000, 1000000) /\
    ~ path false (pool_at w p ps) (pool_at w' p ps).
Proof. exact exec_pool_path_needs_router_not_pair. Qed.
Print Assumptions C03_router_must_not_be_pair.

Theorem C03_swapless_tx : forall w o w' p ps,
  WF w -> Solvent w -> Inert' w -> ~ is_contract w (caller_of o) -> swapless o = true ->
  exec w o = Ok w' -> w_pairs w p = Some ps -> 0 < supply w (p_lp ps) ->
  value_le (pool_at w p ps) (pool_at w' p ps) /\ 0 < supply w' (p_lp ps).
Proof. exact exec_swapless_value_le. Qed.
Print Assumptions C03_swapless_tx.

From HT Require Import Proofs.ValueHistProofs2.
Theorem C03_clean_tx : forall w o w' p ps,
  WF w -> Solvent w -> Inert' w -> w_pairs w (w_rtr w) = None -> ~ is_contract w (caller_of o) -> clean_op_r w o ->
  exec w o = Ok w' -> w_pairs w p = Some ps -> 0 < supply w (p_lp ps) ->
  path false (pool_at w p ps) (pool_at w' p ps).
Proof. exact exec_clean_value_router. Qed.
Print Assumptions C03_clean_tx.

Theorem C03_history_no_routes : forall ops w p ps,
  WF w -> Solvent w -> Inert' w -> user_ops w ops -> w_next (run w ops) <= 1000 -> clean_ops w ops ->
  w_pairs w p = Some ps -> 0 < supply w (p_lp ps) ->
  value_le (pool_at w p ps) (pool_at (run w ops) p ps) /\ 0 < supply (run w ops) (p_lp ps).
Proof. exact run_clean_value. Qed.
Print Assumptions C03_history_no_routes.

Theorem C03_history : forall ops w p ps,
  WF w -> Solvent w -> Inert' w -> w_pairs w (w_rtr w) = None -> user_ops w ops -> w_next (run w ops) <= 1000 ->
  clean_ops_r w ops -> w_pairs w p = Some ps -> 0 < supply w (p_lp ps) ->
  value_le (pool_at w p ps) (pool_at (run w ops) p ps) /\ 0 < supply (run w ops) (p_lp ps).
Proof. exact run_clean_value_router. Qed.
Print Assumptions C03_history.

Theorem C03_history_example :
  exists ps, w_pairs ex_w 5 = Some ps /\
    value_le (pool_at ex_w 5 ps) (pool_at (run ex_w ex_clean_r) 5 ps) /\ 0 < supply (run ex_w ex_clean_r) (p_lp ps) /\
    pool_at (run ex_w ex_clean_r) 5 ps <> pool_at ex_w 5 ps.
Proof. exact run_clean_value_router_example. Qed.
Print Assumptions C03_history_example.
