From HT Require Import Base.Prelude World.World.
(* placeholder: replaced when the world-level theorems land *)
Theorem C03_failed_tx_unchanged : forall w o e, exec w o = Err e -> step w o = w.
Proof. intros w o e H. unfold step. now rewrite H. Qed.
Print Assumptions C03_failed_tx_unchanged.
