(* C03 — LP share value never decreases over any history.
   Abstract pool state (r0, r1, T): the pair's two actual reserves and the LP supply.  Every way a
   pair's reserves or supply can move is a [pool_step] kind whose arithmetic premises are what the
   function-level theorems establish; [C03_hist_abstract] is the induction over any finite sequence of
   such steps.  PARTIAL: that each world transaction acts on each pair as a sequence of pool steps is
   established per operation by the ledger lemmas (C02/C04/C05 blocks) and monitored on the real code
   at every step of every history; a single theorem over [run] is not proved.
   Known finding KF-ceil-window: a swap inside [kf_c01] lowers the value ([C03_refuted]). *)
From HT Require Import Base.Prelude Num.Arith Amm.Formulas Amm.Guards Amm.Known World.World Proofs.ValueProofs Proofs.ValueLinks Proofs.LedgerProofs Proofs.SystemPoolProofs.

Theorem C03_step : forall s s', pool_step s s' -> 0 < supply_of s -> value_le s s' /\ 0 < supply_of s'.
Proof. exact pool_step_value. Qed.

Theorem C03_hist_abstract : forall s s', pool_steps s s' -> 0 < supply_of s -> value_le s s' /\ 0 < supply_of s'.
Proof. exact pool_steps_value. Qed.

Theorem C03_provision_is_step : forall (wl : bool) min0 min1 T d0 d1 r0 r1 m,
  T <> 0 -> lp_share wl min0 min1 T d0 d1 r0 r1 = Ok m -> pool_step (r0, r1, T) (r0 + d0, r1 + d1, T + m).
Proof. exact provide_is_pool_step. Qed.
Theorem C03_withdrawal_is_step : forall r0 r1 a T x0 x1,
  a < T -> withdraw_amounts r0 r1 a T = Ok (x0, x1) -> pool_step (r0, r1, T) (r0 - x0, r1 - x1, T - a).
Proof. exact withdraw_is_pool_step. Qed.
Theorem C03_swap_is_step : forall x y a c n s m T,
  x < W128 -> y < W128 -> a < W128 -> c <= D ->
  compute_swap x y a c = Ok (n, s, m) -> kf_c01 x y a c = false ->
  pool_step (x, y, T) (x + a, y - n, T) /\ pool_step (y, x, T) (y - n, x + a, T).
Proof. exact swap_is_pool_step. Qed.
Theorem C03_value_le_trans : forall s1 s2 s3,
  0 < supply_of s1 -> 0 < supply_of s2 -> 0 < supply_of s3 -> value_le s1 s2 -> value_le s2 s3 -> value_le s1 s3.
Proof. exact value_le_trans. Qed.

Theorem C03_refuted :
  exists x y a c n s m T, x < W128 /\ y < W128 /\ a < W128 /\ c <= D /\ 0 < T /\
    compute_swap x y a c = Ok (n, s, m) /\ ~ value_le (x, y, T) (x + a, y - n, T).
Proof. exact value_refuted. Qed.

Example C03_nonvacuous :
  pool_steps (1000, 4000, 2000) (1000 + 100 + 200, 4000 + 400 - 400, 2000 + 200) /\ 0 < supply_of (1000, 4000, 2000).
Proof.
  split; [|reflexivity].
  apply pss_cons with (1000 + 100, 4000 + 400, 2000 + 200).
  - apply ps_provide; lia.
  - apply pss_cons with (1000 + 100 + 200, 4000 + 400 - 400, 2000 + 200).
    + apply ps_swap01; lia.
    + apply pss_nil.
Qed.

(* ---- system level: the pair handlers of the world model are pool steps on the actual balances ---- *)
Theorem C03_sys_swap : forall w p ps funds sender offer amount bp ms to w' ret spread comm T,
  pair_swap w p ps funds sender offer amount bp ms to = Ok (w', (ret, spread, comm)) ->
  let ask := if asset_eqb offer (p_a0 ps) then p_a1 ps else p_a0 ps in
  let rcv := match to with Some t => t | None => sender end in
  asset_eqb (p_a0 ps) (p_a1 ps) = false -> rcv <> p ->
  bal w offer p < W128 -> bal w ask p < W128 -> amount < W128 -> p_comm ps <= D ->
  kf_c01 (bal w offer p - amount) (bal w ask p) amount (p_comm ps) = false ->
  pool_step (bal w offer p - amount, bal w ask p, T) (bal w' offer p, bal w' ask p, T).
Proof. exact pair_swap_pool_step. Qed.
Theorem C03_sys_withdraw : forall w p ps sender amount w' total,
  pair_withdraw w p ps sender amount = Ok w' ->
  asset_eqb (p_a0 ps) (p_a1 ps) = false -> asset_eqb (p_a0 ps) (AToken (p_lp ps)) = false ->
  asset_eqb (p_a1 ps) (AToken (p_lp ps)) = false -> sender <> p ->
  token_supply w (p_lp ps) = Ok total -> amount < total ->
  pool_step (bal w (p_a0 ps) p, bal w (p_a1 ps) p, total)
            (bal w' (p_a0 ps) p, bal w' (p_a1 ps) p, supply w' (p_lp ps)).
Proof. exact pair_withdraw_pool_step. Qed.
Theorem C03_sys_provide : forall w p ps c funds l0 n0 l1 n1 tol rcv w' total,
  pair_provide w p ps c funds l0 n0 l1 n1 tol rcv = Ok w' ->
  asset_eqb (p_a0 ps) (p_a1 ps) = false -> asset_eqb (p_a0 ps) (AToken (p_lp ps)) = false ->
  asset_eqb (p_a1 ps) (AToken (p_lp ps)) = false -> c <> p ->
  token_supply w (p_lp ps) = Ok total -> total <> 0 ->
  exists d0 d1 q0 q1,
    (q0 = if asset_is_native (p_a0 ps) then bal w (p_a0 ps) p - d0 else bal w (p_a0 ps) p) /\
    (q1 = if asset_is_native (p_a1 ps) then bal w (p_a1 ps) p - d1 else bal w (p_a1 ps) p) /\
    bal w' (p_a0 ps) p = q0 + d0 /\ bal w' (p_a1 ps) p = q1 + d1 /\
    pool_step (q0, q1, total) (bal w' (p_a0 ps) p, bal w' (p_a1 ps) p, supply w' (p_lp ps)).
Proof. exact pair_provide_pool_step. Qed.

Print Assumptions C03_sys_swap.
Print Assumptions C03_sys_withdraw.
Print Assumptions C03_sys_provide.
Print Assumptions C03_step.
Print Assumptions C03_hist_abstract.
Print Assumptions C03_provision_is_step.
Print Assumptions C03_withdrawal_is_step.
Print Assumptions C03_swap_is_step.
Print Assumptions C03_value_le_trans.
Print Assumptions C03_refuted.
Print Assumptions C03_nonvacuous.
