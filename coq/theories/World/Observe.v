(* What the correspondence check observes of a world, as a flat list of numbers in a fixed order
   shared with the Rust harness (harness/src/world.rs, fn snapshot), the initial world the harness
   sets up, and accessors into a snapshot for the property monitors. *)
From HT Require Import Base.Prelude Num.Arith Amm.Formulas Amm.Guards World.World.

Record layout := mkLayout { l_users : N; l_denoms : N; l_tokens : N; l_maxpairs : N }.

Definition USER0 : N := 1000.
Definition n_init (L : layout) : N := 2 + l_tokens L.                 (* factory, router, asset tokens *)
Definition n_contracts (L : layout) : N := n_init L + 2 * l_maxpairs L.
Definition seqN (start len : N) : list N := map (fun i => start + N.of_nat i) (seq 0 (N.to_nat len)).
Definition accounts (L : layout) : list addr := seqN USER0 (l_users L) ++ seqN 0 (n_contracts L).
Definition users (L : layout) : list addr := seqN USER0 (l_users L).
Definition denoms (L : layout) : list denom := seqN 0 (l_denoms L).
Definition pair_ids (L : layout) : list addr := map (fun i => n_init L + 2 * i) (seqN 0 (l_maxpairs L)).
Definition token_ids (L : layout) : list addr :=
  seqN 2 (l_tokens L) ++ map (fun i => n_init L + 2 * i + 1) (seqN 0 (l_maxpairs L)).

Definition opt_code (o : option N) : N := match o with Some x => x + 1 | None => 0 end.
Definition asset_code (a : asset) : list N := match a with ANative d => [0; d] | AToken t => [1; t] end.
Definition wl_mask (l : list addr) : N :=
  fold_left (fun m a => if (USER0 <=? a) && (a <? USER0 + 120) then N.lor m (N.shiftl 1 (a - USER0)) else m) l 0.
Fixpoint wl_comb (i : N) (l : list addr) : N := match l with [] => 0 | x :: l => i * x + wl_comb (i + 1) l end.

Definition obs_token (L : layout) (w : world) (t : addr) : list N :=
  match w_tokens w t with
  | None => [0; 0; 0; 0] ++ map (fun _ => 0) (accounts L)
  | Some tk => [1; t_supply tk; t_decimals tk; opt_code (t_minter tk)] ++ map (t_bal tk) (accounts L)
  end.
Definition obs_allow (L : layout) (w : world) (t : addr) : list N :=
  flat_map (fun o => map (fun s => match w_tokens w t with
                                   | None => 0
                                   | Some tk => opt_code (t_allow tk o s) end) (pair_ids L)) (users L).
Definition obs_pair (w : world) (p : addr) : list N :=
  match w_pairs w p with
  | None => repeat 0 36%nat
  | Some ps =>
      [1] ++ asset_code (p_a0 ps) ++ asset_code (p_a1 ps) ++
      [p_d0 ps; p_d1 ps; p_lp ps; p_min0 ps; p_min1 ps; p_comm ps; N.of_nat (length (p_wl ps)); wl_comb 1 (p_wl ps)] ++
      (match reg_find (w_reg w) (p_a0 ps) (p_a1 ps) with
       | None => repeat 0 14%nat
       | Some r => [1; f_pair r; f_lp r] ++ asset_code (f_a0 r) ++ asset_code (f_a1 r) ++
                   [f_d0 r; f_d1 r; f_min0 r; f_min1 r; f_comm r; N.of_nat (length (f_wl r)); wl_comb 1 (f_wl r)]
       end) ++
      (* the same lookup with the two assets in the other order *)
      (match reg_find (w_reg w) (p_a1 ps) (p_a0 ps) with
       | None => repeat 0 8%nat
       | Some r => [1; f_pair r] ++ asset_code (f_a0 r) ++ asset_code (f_a1 r) ++ [f_d0 r; f_d1 r]
       end) ++
      (* which users the pair's whitelist names, as a bit mask over user indices *)
      [wl_mask (p_wl ps)]
  end.

Definition observe (L : layout) (w : world) : list N :=
  flat_map (fun a => map (w_bank w a) (denoms L)) (accounts L) ++
  flat_map (obs_token L w) (token_ids L) ++
  flat_map (obs_allow L w) (token_ids L) ++
  [w_owner w] ++ map (fun d => opt_code (w_natives w d)) (denoms L) ++
  flat_map (obs_pair w) (pair_ids L) ++
  [w_next w].

(* ---- the initial world the harness builds ---- *)
(* factory = contract0 (owner = user0), router = contract1, asset tokens contract2.. with
   [tdec t] decimals and minter user0; every user holds [ubal] of every denom and every token;
   the factory holds [fbal] of every denom (needed to register native decimals). *)
Definition init_world (L : layout) (ubal fbal : N) (tdec : N -> N) : world :=
  let is_user a := (USER0 <=? a) && (a <? USER0 + l_users L) in
  let bank := fun a d => if d <? l_denoms L then (if is_user a then ubal else if a =? 0 then fbal else 0) else 0 in
  let tok t := mkToken (fun a => if is_user a then ubal else 0) (fun _ _ => None)
                       (ubal * l_users L) (Some USER0) (tdec t) in
  mkWorld bank
          (fun a => if (2 <=? a) && (a <? 2 + l_tokens L) then Some (tok a) else None)
          (fun _ => None) 0 1 USER0 (fun _ => None) [] (n_init L).

(* ---- accessors into a snapshot (same order as [observe]) ---- *)
Definition n_accounts (L : layout) : N := l_users L + n_contracts L.
Definition acct_pos (L : layout) (a : addr) : N := if USER0 <=? a then a - USER0 else l_users L + a.
Definition n_tokens_all (L : layout) : N := l_tokens L + l_maxpairs L.
Definition token_pos (L : layout) (t : addr) : N :=
  if t <? n_init L then t - 2 else l_tokens L + (t - n_init L - 1) / 2.
Definition pair_pos (L : layout) (p : addr) : N := (p - n_init L) / 2.
Definition off_tokens (L : layout) : N := n_accounts L * l_denoms L.
Definition tok_stride (L : layout) : N := 4 + n_accounts L.
Definition off_allow (L : layout) : N := off_tokens L + n_tokens_all L * tok_stride L.
Definition allow_stride (L : layout) : N := l_users L * l_maxpairs L.
Definition off_fac (L : layout) : N := off_allow L + n_tokens_all L * allow_stride L.
Definition off_pairs (L : layout) : N := off_fac L + 1 + l_denoms L.
Definition PAIR_STRIDE : N := 36.

Definition sget (s : list N) (i : N) : N := nth (N.to_nat i) s 0.
Definition s_bank L s (a : addr) (d : denom) : N := sget s (acct_pos L a * l_denoms L + d).
Definition s_tok_exists L s t : N := sget s (off_tokens L + token_pos L t * tok_stride L).
Definition s_supply L s t : N := sget s (off_tokens L + token_pos L t * tok_stride L + 1).
Definition s_bal L s t (a : addr) : N := sget s (off_tokens L + token_pos L t * tok_stride L + 4 + acct_pos L a).
Definition s_owner L s : N := sget s (off_fac L).
Definition s_native L s d : N := sget s (off_fac L + 1 + d).
Definition s_pair L s p (field : N) : N := sget s (off_pairs L + pair_pos L p * PAIR_STRIDE + field).
Definition s_asset_bal L s (a : asset) (who : addr) : N :=
  match a with ANative d => s_bank L s who d | AToken t => s_bal L s t who end.
(* pair fields: 0 exists, 1-2 a0, 3-4 a1, 5 d0, 6 d1, 7 lp, 8 min0, 9 min1, 10 comm, 11 |wl|, 12 wl comb,
   13 record found, 14 rec pair, 15 rec lp, 16-17 rec a0, 18-19 rec a1, 20 rec d0, 21 rec d1,
   22 rec min0, 23 rec min1, 24 rec comm, 25 rec |wl|, 26 rec wl comb,
   reverse-order lookup: 27 found, 28 pair, 29-30 a0, 31-32 a1, 33 d0, 34 d1 *)
Definition s_pair_asset L s p (i : N) : asset :=
  let k := s_pair L s p (1 + 2 * i) in let v := s_pair L s p (2 + 2 * i) in
  if k =? 0 then ANative v else AToken v.

Fixpoint apply_delta (s : list N) (i : N) (d : list (N * N)) : list N :=
  match s with
  | [] => []
  | x :: s' =>
      match d with
      | (j, v) :: d' => if i =? j then v :: apply_delta s' (i + 1) d' else x :: apply_delta s' (i + 1) d
      | [] => s
      end
  end.
