(* The world: bank ledger, cw20 tokens (cw20-base 1.0.0), pairs, factory, router, and the
   transaction semantics of cw-multi-test 0.16.1 (funds moved before the handler runs; emitted
   messages run depth-first in order; any failure reverts the whole top-level transaction).
   One Gallina function per Rust handler / match arm.  A failed transaction is [Err _]; the
   world is then unchanged by construction of [step]. *)
From HT Require Import Base.Prelude Num.Arith Amm.Formulas Amm.Guards.

Definition addr := N.
Definition denom := N.

Inductive asset : Type := ANative (d : denom) | AToken (a : addr).
Definition asset_eqb (x y : asset) : bool :=
  match x, y with
  | ANative d, ANative d' => d =? d'
  | AToken a, AToken a' => a =? a'
  | _, _ => false
  end.
Definition asset_is_native (x : asset) : bool := match x with ANative _ => true | AToken _ => false end.

Definition upd {V} (f : N -> V) (k : N) (v : V) : N -> V := fun x => if x =? k then v else f x.
Definition upd2 {V} (f : N -> N -> V) (k1 k2 : N) (v : V) : N -> N -> V :=
  fun x y => if (x =? k1) && (y =? k2) then v else f x y.
Fixpoint mem_addr (a : addr) (l : list addr) : bool :=
  match l with [] => false | x :: l => (x =? a) || mem_addr a l end.

(* ---- state ---- *)
Record token := mkToken {
  t_bal : addr -> N;
  t_allow : addr -> addr -> option N;        (* owner, spender; None = no allowance entry *)
  t_supply : N;
  t_minter : option addr;
  t_decimals : N }.

Record pairst := mkPair {
  p_a0 : asset; p_a1 : asset;
  p_d0 : N; p_d1 : N;                        (* asset_decimals *)
  p_lp : addr;
  p_wl : list addr; p_min0 : N; p_min1 : N;  (* requirements *)
  p_comm : N;                                (* commission rate, Decimal256 atomics *)
  p_fac : addr }.                            (* Config.halo_factory *)

Record frec := mkRec {                       (* the factory's PairInfoRaw for one pair *)
  f_a0 : asset; f_a1 : asset;
  f_pair : addr; f_lp : addr;
  f_d0 : N; f_d1 : N;
  f_wl : list addr; f_min0 : N; f_min1 : N;
  f_comm : N }.

Record world := mkWorld {
  w_bank : addr -> denom -> N;
  w_tokens : addr -> option token;
  w_pairs : addr -> option pairst;
  w_fac : addr;                              (* the factory contract *)
  w_rtr : addr;                              (* the router contract *)
  w_owner : addr;                            (* factory Config.owner *)
  w_natives : denom -> option N;             (* ALLOW_NATIVE_TOKENS *)
  w_reg : list frec;                         (* PAIRS (unordered at this level; see Reg/Registry.v) *)
  w_next : N }.                              (* next contract address contract{n} *)

Definition set_bank w b := mkWorld b (w_tokens w) (w_pairs w) (w_fac w) (w_rtr w) (w_owner w) (w_natives w) (w_reg w) (w_next w).
Definition set_token w a t := mkWorld (w_bank w) (upd (w_tokens w) a (Some t)) (w_pairs w) (w_fac w) (w_rtr w) (w_owner w) (w_natives w) (w_reg w) (w_next w).
Definition set_pair w a p := mkWorld (w_bank w) (w_tokens w) (upd (w_pairs w) a (Some p)) (w_fac w) (w_rtr w) (w_owner w) (w_natives w) (w_reg w) (w_next w).
Definition set_owner w o := mkWorld (w_bank w) (w_tokens w) (w_pairs w) (w_fac w) (w_rtr w) o (w_natives w) (w_reg w) (w_next w).
Definition set_natives w n := mkWorld (w_bank w) (w_tokens w) (w_pairs w) (w_fac w) (w_rtr w) (w_owner w) n (w_reg w) (w_next w).
Definition set_reg w r := mkWorld (w_bank w) (w_tokens w) (w_pairs w) (w_fac w) (w_rtr w) (w_owner w) (w_natives w) r (w_next w).
Definition set_next w n := mkWorld (w_bank w) (w_tokens w) (w_pairs w) (w_fac w) (w_rtr w) (w_owner w) (w_natives w) (w_reg w) n.

Definition coin := (denom * N)%type.

(* ---- bank (cw-multi-test BankKeeper) ---- *)
Fixpoint bank_sub_all (b : addr -> denom -> N) (a : addr) (cs : list coin) : res (addr -> denom -> N) :=
  match cs with
  | [] => Ok b
  | (d, n) :: cs => if n <=? b a d then bank_sub_all (upd2 b a d (b a d - n)) a cs else Err EStd
  end.
Fixpoint bank_add_all (b : addr -> denom -> N) (a : addr) (cs : list coin) : res (addr -> denom -> N) :=
  match cs with
  | [] => Ok b
  | (d, n) :: cs => if b a d + n <? W128 then bank_add_all (upd2 b a d (b a d + n)) a cs else Err Panic
  end.
Definition nonzero_coins (cs : list coin) : list coin := filter (fun c => negb (snd c =? 0)) cs.
(* BankMsg::Send: zero coins are dropped, an empty remainder is an error *)
Definition bank_send (w : world) (from to : addr) (cs : list coin) : res world :=
  match nonzero_coins cs with
  | [] => Err EStd
  | nz => let* b1 := bank_sub_all (w_bank w) from nz in
          let* b2 := bank_add_all b1 to nz in Ok (set_bank w b2)
  end.
(* funds attached to WasmMsg::Execute: moved first, unless the vector is empty *)
Definition move_funds (w : world) (from to : addr) (funds : list coin) : res world :=
  match funds with [] => Ok w | _ => bank_send w from to funds end.

(* ---- cw20-base ---- *)
Definition tok_debit (t : token) (a : addr) (n : N) : res token :=
  if n <=? t_bal t a then Ok (mkToken (upd (t_bal t) a (t_bal t a - n)) (t_allow t) (t_supply t) (t_minter t) (t_decimals t))
  else Err EStd.
Definition tok_credit (t : token) (a : addr) (n : N) : res token :=
  if t_bal t a + n <? W128 then Ok (mkToken (upd (t_bal t) a (t_bal t a + n)) (t_allow t) (t_supply t) (t_minter t) (t_decimals t))
  else Err Panic.
Definition tok_transfer (t : token) (sender rcpt : addr) (n : N) : res token :=
  if n =? 0 then Err EZeroAmount else
  let* t1 := tok_debit t sender n in tok_credit t1 rcpt n.
Definition tok_transfer_from (t : token) (spender owner rcpt : addr) (n : N) : res token :=
  match t_allow t owner spender with
  | None => Err EStd
  | Some al =>
      if n <=? al then
        let t0 := mkToken (t_bal t) (fun o s => if (o =? owner) && (s =? spender) then Some (al - n) else t_allow t o s)
                          (t_supply t) (t_minter t) (t_decimals t) in
        let* t1 := tok_debit t0 owner n in tok_credit t1 rcpt n
      else Err EStd
  end.
Definition tok_mint (t : token) (sender rcpt : addr) (n : N) : res token :=
  if n =? 0 then Err EZeroAmount else
  match t_minter t with
  | None => Err EUnauthorized
  | Some m =>
      if negb (m =? sender) then Err EUnauthorized else
      if t_supply t + n <? W128 then
        tok_credit (mkToken (t_bal t) (t_allow t) (t_supply t + n) (t_minter t) (t_decimals t)) rcpt n
      else Err Panic
  end.
Definition tok_burn (t : token) (sender : addr) (n : N) : res token :=
  if n =? 0 then Err EZeroAmount else
  let* t1 := tok_debit t sender n in
  if n <=? t_supply t1 then Ok (mkToken (t_bal t1) (t_allow t1) (t_supply t1 - n) (t_minter t1) (t_decimals t1))
  else Err EStd.
Definition tok_increase_allowance (t : token) (owner spender : addr) (n : N) : res token :=
  if spender =? owner then Err EStd else
  let cur := match t_allow t owner spender with Some a => a | None => 0 end in
  if cur + n <? W128 then
    Ok (mkToken (t_bal t) (fun o s => if (o =? owner) && (s =? spender) then Some (cur + n) else t_allow t o s)
                (t_supply t) (t_minter t) (t_decimals t))
  else Err Panic.

(* BurnFrom: deduct_allowance, then lower the owner's balance and the total supply (allowances.rs;
   no zero-amount check there, exactly as in TransferFrom) *)
Definition tok_burn_from (t : token) (spender owner : addr) (n : N) : res token :=
  match t_allow t owner spender with
  | None => Err EStd
  | Some al =>
      if n <=? al then
        let t0 := mkToken (t_bal t) (fun o s => if (o =? owner) && (s =? spender) then Some (al - n) else t_allow t o s)
                          (t_supply t) (t_minter t) (t_decimals t) in
        let* t1 := tok_debit t0 owner n in
        if n <=? t_supply t1 then Ok (mkToken (t_bal t1) (t_allow t1) (t_supply t1 - n) (t_minter t1) (t_decimals t1))
        else Err EStd
      else Err EStd
  end.
(* DecreaseAllowance by [owner]: ALLOWANCES.load fails when there is no entry; the entry is removed
   when the amount reaches the allowance, reduced otherwise *)
Definition tok_decrease_allowance (t : token) (owner spender : addr) (n : N) : res token :=
  if spender =? owner then Err EStd else
  match t_allow t owner spender with
  | None => Err EStd
  | Some al =>
      Ok (mkToken (t_bal t)
                  (fun o s => if (o =? owner) && (s =? spender) then (if n <? al then Some (al - n) else None) else t_allow t o s)
                  (t_supply t) (t_minter t) (t_decimals t))
  end.

(* run a cw20 operation on the token contract at [ta] *)
Definition with_token (w : world) (ta : addr) (f : token -> res token) : res world :=
  match w_tokens w ta with
  | None => Err EStd
  | Some t => let* t' := f t in Ok (set_token w ta t')
  end.

(* ---- queries the contracts make ---- *)
Definition asset_balance (w : world) (a : asset) (who : addr) : res N :=
  match a with
  | ANative d => Ok (w_bank w who d)
  | AToken ta => match w_tokens w ta with Some t => Ok (t_bal t who) | None => Err EStd end
  end.
Definition token_supply (w : world) (ta : addr) : res N :=
  match w_tokens w ta with Some t => Ok (t_supply t) | None => Err EStd end.

(* Asset::into_msg executed by [from]: bank send or cw20 transfer *)
Definition pay_asset (w : world) (from : addr) (a : asset) (n : N) (to : addr) : res world :=
  match a with
  | ANative d => bank_send w from to [(d, n)]
  | AToken ta => with_token w ta (fun t => tok_transfer t from to n)
  end.

Definition funds_of (a : asset) (funds : list coin) (amount : N) : res unit :=
  match a with
  | ANative d =>
      match find (fun c => fst c =? d) funds with
      | Some c => if amount =? snd c then Ok tt else Err EStd
      | None => if amount =? 0 then Ok tt else Err EStd
      end
  | AToken _ => Ok tt
  end.

(* ---- pair contract ---- *)
Inductive hook : Type :=
| HSwap (offer : asset) (amount : N) (belief max_spread : option N) (to : option addr)
| HWithdraw
| HRouterOps (ops : list (asset * asset)) (min_receive : option N) (to : option addr)
| HGarbage.

(* swap(): [caller] = info.sender, [sender] = the trader credited by default *)
Definition pair_swap (w : world) (p : addr) (ps : pairst) (funds : list coin) (sender : addr)
           (offer : asset) (amount : N) (belief max_spread : option N) (to : option addr)
  : res (world * (N * N * N)) :=
  let* _ := funds_of offer funds amount in
  let* r0 := asset_balance w (p_a0 ps) p in
  let* r1 := asset_balance w (p_a1 ps) p in
  let* sel :=
    (if asset_eqb offer (p_a0 ps) then
       let* op := u128_checked_sub r0 amount in Ok (op, r1, p_a1 ps, p_d0 ps, p_d1 ps)
     else if asset_eqb offer (p_a1 ps) then
       let* op := u128_checked_sub r1 amount in Ok (op, r0, p_a0 ps, p_d1 ps, p_d0 ps)
     else Err EAssetMismatch) in
  let '(offer_pool, ask_pool, ask, od, ad) := sel in
  let* out := compute_swap offer_pool ask_pool amount (p_comm ps) in
  let '(ret, spread, comm) := out in
  let* _ := assert_max_spread belief max_spread amount ret spread od ad in
  let receiver := match to with Some t => t | None => sender end in
  let* w' := (if ret =? 0 then Ok w else pay_asset w p ask ret receiver) in
  Ok (w', out).

Definition pair_withdraw (w : world) (p : addr) (ps : pairst) (sender : addr) (amount : N) : res world :=
  let* r0 := asset_balance w (p_a0 ps) p in
  let* r1 := asset_balance w (p_a1 ps) p in
  let* total := token_supply w (p_lp ps) in
  let* xs := withdraw_amounts r0 r1 amount total in
  let '(x0, x1) := xs in
  let* w1 := pay_asset w p (p_a0 ps) x0 sender in
  let* w2 := pay_asset w1 p (p_a1 ps) x1 sender in
  with_token w2 (p_lp ps) (fun t => tok_burn t p amount).

(* the first listed asset equal to the pool asset *)
Definition deposit_of (a : asset) (l0 : asset) (n0 : N) (l1 : asset) (n1 : N) : res N :=
  if asset_eqb l0 a then Ok n0 else if asset_eqb l1 a then Ok n1 else Err Panic.

Definition pair_provide (w : world) (p : addr) (ps : pairst) (caller : addr) (funds : list coin)
           (l0 : asset) (n0 : N) (l1 : asset) (n1 : N) (tol : option N) (receiver : option addr) : res world :=
  let* _ := funds_of l0 funds n0 in
  let* _ := funds_of l1 funds n1 in
  let* r0 := asset_balance w (p_a0 ps) p in
  let* r1 := asset_balance w (p_a1 ps) p in
  let* d0 := deposit_of (p_a0 ps) l0 n0 l1 n1 in
  let* d1 := deposit_of (p_a1 ps) l0 n0 l1 n1 in
  (* Decimal256::from_uint256((pool_0 + amount_0) * (pool_1 + amount_1)) *)
  let* s0 := uint_add r0 d0 in
  let* s1 := uint_add r1 d1 in
  let* prod := uint_mul s0 s1 in
  let* _ := dec_from_uint256 prod in
  let* q0 := (if asset_is_native (p_a0 ps) then u128_checked_sub r0 d0 else Ok r0) in
  let* q1 := (if asset_is_native (p_a1 ps) then u128_checked_sub r1 d1 else Ok r1) in
  let* _ := assert_slippage_tolerance tol d0 d1 q0 q1 in
  let* total := token_supply w (p_lp ps) in
  let* share := (match lp_share (mem_addr caller (p_wl ps)) (p_min0 ps) (p_min1 ps) total d0 d1 q0 q1 with
                 | Ok s => Ok s | Err _ => Err Panic end) in          (* .unwrap() *)
  if share =? 0 then Err EZeroAmount else
  let rcv := match receiver with Some r => r | None => caller end in
  (* messages, in the order queued *)
  let* w1 := (match p_a0 ps with
              | AToken ta => with_token w ta (fun t => tok_transfer_from t p caller p d0)
              | ANative _ => Ok w end) in
  let* w2 := (match p_a1 ps with
              | AToken ta => with_token w1 ta (fun t => tok_transfer_from t p caller p d1)
              | ANative _ => Ok w1 end) in
  if total =? 0 then
    let* w3 := with_token w2 (p_lp ps) (fun t => tok_mint t p (p_lp ps) 1) in
    let* share' := u128_checked_sub share 1 in
    with_token w3 (p_lp ps) (fun t => tok_mint t p rcv share')
  else
    with_token w2 (p_lp ps) (fun t => tok_mint t p rcv share).

Definition pair_update_decimals (w : world) (p : addr) (ps : pairst) (caller : addr) (dn : denom) (d0 d1 : N) : res world :=
  if negb (caller =? p_fac ps) then Err EUnauthorized else
  let hit := asset_eqb (p_a0 ps) (ANative dn) || asset_eqb (p_a1 ps) (ANative dn) in
  if hit then
    Ok (set_pair w p (mkPair (p_a0 ps) (p_a1 ps) d0 d1 (p_lp ps) (p_wl ps) (p_min0 ps) (p_min1 ps) (p_comm ps) (p_fac ps)))
  else Ok w.

(* ExecuteMsg::Receive as called by [caller] with a Cw20ReceiveMsg{sender, amount, msg} *)
Definition pair_receive (w : world) (p : addr) (ps : pairst) (caller : addr) (funds : list coin)
           (cw_sender : addr) (cw_amount : N) (h : hook) : res world :=
  match h with
  | HSwap offer amount belief ms to =>
      if negb (amount =? cw_amount) then Err EAssetMismatch else
      let* _ := asset_balance w (p_a0 ps) p in
      let* _ := asset_balance w (p_a1 ps) p in
      let authorized := asset_eqb (p_a0 ps) (AToken caller) || asset_eqb (p_a1 ps) (AToken caller) in
      if negb authorized then Err EUnauthorized else
      (* repaired code: the named offer asset must be the calling token (fix: C02) *)
      if negb (asset_eqb offer (AToken caller)) then Err EAssetMismatch else
      let* r := pair_swap w p ps funds cw_sender offer amount belief ms to in Ok (fst r)
  | HWithdraw =>
      if negb (caller =? p_lp ps) then Err EUnauthorized else
      pair_withdraw w p ps cw_sender cw_amount
  | _ => Err EStd
  end.

(* ---- factory ---- *)
Definition same_assets (a0 a1 b0 b1 : asset) : bool :=
  (asset_eqb a0 b0 && asset_eqb a1 b1) || (asset_eqb a0 b1 && asset_eqb a1 b0).
Definition reg_find (reg : list frec) (a0 a1 : asset) : option frec :=
  find (fun r => same_assets (f_a0 r) (f_a1 r) a0 a1) reg.

Definition asset_decimals (w : world) (a : asset) : res N :=
  match a with
  | ANative d => match w_natives w d with Some k => Ok k | None => Err EStd end
  | AToken ta => match w_tokens w ta with Some t => Ok (t_decimals t) | None => Err EStd end
  end.

Definition DEFAULT_COMMISSION : N := 3000000000000000.

Definition fac_create_pair (w : world) (caller : addr) (a0 a1 : asset) (wl : list addr) (min0 min1 : N)
           (comm : option N) (lpdec : option N) : res world :=
  if negb (caller =? w_owner w) then Err EStd else
  if asset_eqb a0 a1 then Err EStd else
  if (match comm with Some c => D <? c | None => false end) then Err EStd else
  let* d0 := asset_decimals w a0 in
  let* d1 := asset_decimals w a1 in
  match reg_find (w_reg w) a0 a1 with
  | Some _ => Err EStd
  | None =>
      let c := match comm with Some c => c | None => DEFAULT_COMMISSION end in
      let ld := match lpdec with Some k => k | None => 6 end in
      if 18 <? ld then Err EStd else                    (* cw20-base instantiate validation *)
      let p := w_next w in
      let lp := w_next w + 1 in
      let ps := mkPair a0 a1 d0 d1 lp wl min0 min1 c (w_fac w) in
      let lt := mkToken (fun _ => 0) (fun _ _ => None) 0 (Some p) ld in
      let w1 := set_pair w p ps in
      let w2 := set_token w1 lp lt in
      let w3 := set_reg w2 (w_reg w ++ [mkRec a0 a1 p lp d0 d1 wl min0 min1 c]) in
      Ok (set_next w3 (w_next w + 2))
  end.

(* walk the registry: rewrite the record and tell the pair *)
Fixpoint fac_update_records (w : world) (dn : denom) (k : N) (todo : list frec) (done : list frec) : res world :=
  match todo with
  | [] => Ok (set_reg w (rev done))
  | r :: todo =>
      let hit0 := asset_eqb (f_a0 r) (ANative dn) in
      let hit1 := asset_eqb (f_a1 r) (ANative dn) in
      let r1 := if hit0 then mkRec (f_a0 r) (f_a1 r) (f_pair r) (f_lp r) k (f_d1 r) (f_wl r) (f_min0 r) (f_min1 r) (f_comm r) else r in
      (* the second save starts from the record as loaded, as the code does *)
      let r2 := if hit1 then mkRec (f_a0 r) (f_a1 r) (f_pair r) (f_lp r) (f_d0 r) k (f_wl r) (f_min0 r) (f_min1 r) (f_comm r) else r1 in
      let* w1 := (if hit0 then
                    match w_pairs w (f_pair r) with
                    | Some ps => pair_update_decimals w (f_pair r) ps (w_fac w) dn k (f_d1 r)
                    | None => Err EStd end
                  else Ok w) in
      let* w2 := (if hit1 then
                    match w_pairs w1 (f_pair r) with
                    | Some ps => pair_update_decimals w1 (f_pair r) ps (w_fac w) dn (f_d0 r) k
                    | None => Err EStd end
                  else Ok w1) in
      fac_update_records w2 dn k todo (r2 :: done)
  end.

Definition fac_add_native (w : world) (caller : addr) (dn : denom) (k : N) : res world :=
  let existed := match w_natives w dn with Some _ => true | None => false end in
  if negb (caller =? w_owner w) then Err EStd else
  if w_bank w (w_fac w) dn =? 0 then Err EStd else
  let w1 := set_natives w (upd (w_natives w) dn (Some k)) in
  if existed then fac_update_records w1 dn k (w_reg w1) [] else Ok w1.

Definition fac_update_config (w : world) (caller : addr) (new_owner : option addr) : res world :=
  if negb (caller =? w_owner w) then Err EStd else
  Ok (match new_owner with Some o => set_owner w o | None => w end).

Definition fac_migrate_pair (w : world) (caller : addr) (contract : addr) : res world :=
  if negb (caller =? w_owner w) then Err EStd else
  match w_pairs w contract with Some _ => Ok w | None => Err EStd end.

(* ---- router ---- *)
Definition to_guard_asset (a : asset) : asset_info :=
  match a with ANative d => Native [d] | AToken t => Token [t + 1000000000] end.
(* E-names: a native denom string never equals a token address string; the encoding above keeps the
   two name spaces apart, as the environment assumption requires *)
Definition router_assert_operations (ops : list (asset * asset)) : res unit :=
  assert_operations (map (fun o => (to_guard_asset (fst o), to_guard_asset (snd o))) ops).

(* one hop: ExecuteSwapOperation called by the router on itself *)
Definition router_hop (w : world) (offer ask : asset) (to : option addr) : res world :=
  match reg_find (w_reg w) offer ask with
  | None => Err EStd
  | Some r =>
      let p := f_pair r in
      match w_pairs w p with
      | None => Err EStd
      | Some ps =>
          let* amount := asset_balance w offer (w_rtr w) in
          match offer with
          | ANative d =>
              (* pair.Swap with funds [amount of denom] *)
              let funds := [(d, amount)] in
              let* w1 := move_funds w (w_rtr w) p funds in
              let* r := pair_swap w1 p ps funds (w_rtr w) offer amount None None to in Ok (fst r)
          | AToken ta =>
              (* cw20.Send{pair, amount, Swap hook} *)
              let* w1 := with_token w ta (fun t => tok_transfer t (w_rtr w) p amount) in
              pair_receive w1 p ps ta [] (w_rtr w) amount (HSwap offer amount None None to)
          end
      end
  end.

Fixpoint router_hops (w : world) (ops : list (asset * asset)) (to : addr) : res world :=
  match ops with
  | [] => Ok w
  | [(o, a)] => router_hop w o a (Some to)
  | (o, a) :: rest => let* w1 := router_hop w o a None in router_hops w1 rest to
  end.

Definition router_assert_min (w : world) (target : asset) (prev minimum : N) (receiver : addr) : res world :=
  let* now := asset_balance w target receiver in
  let* got := u128_checked_sub now prev in
  if got <? minimum then Err EStd else Ok w.

Definition last_ask (ops : list (asset * asset)) : asset := snd (last ops (ANative 0, ANative 0)).

(* execute_swap_operations (entered directly or through the cw20 hook) *)
Definition router_exec_ops (w : world) (sender : addr) (ops : list (asset * asset))
           (min_receive : option N) (to : option addr) : res world :=
  match ops with
  | [] => Err EStd
  | _ =>
      let* _ := router_assert_operations ops in
      let rcv := match to with Some t => t | None => sender end in
      let target := last_ask ops in
      match min_receive with
      | None => router_hops w ops rcv
      | Some m =>
          let* prev := asset_balance w target rcv in
          let* w1 := router_hops w ops rcv in
          router_assert_min w1 target prev m rcv
      end
  end.

(* ---- cw20 Send: move the tokens, then call Receive on the target contract ---- *)
Definition cw20_send (w : world) (ta : addr) (sender : addr) (target : addr) (amount : N) (h : hook) : res world :=
  let* w1 := with_token w ta (fun t => tok_transfer t sender target amount) in
  match w_pairs w1 target with
  | Some ps => pair_receive w1 target ps ta [] sender amount h
  | None =>
      if target =? w_rtr w1 then
        match h with
        | HRouterOps ops m to => router_exec_ops w1 sender ops m to
        | _ => Err EStd
        end
      else Err EStd
  end.

(* ---- cw20 SendFrom: TransferFrom's ledger part, then Receive on the target with
   Cw20ReceiveMsg.sender = the spender (info.sender), not the owner ---- *)
Definition cw20_send_from (w : world) (ta : addr) (spender owner : addr) (target : addr) (amount : N) (h : hook) : res world :=
  let* w1 := with_token w ta (fun t => tok_transfer_from t spender owner target amount) in
  match w_pairs w1 target with
  | Some ps => pair_receive w1 target ps ta [] spender amount h
  | None =>
      if target =? w_rtr w1 then
        match h with
        | HRouterOps ops m to => router_exec_ops w1 spender ops m to
        | _ => Err EStd
        end
      else Err EStd
  end.

(* ---- user-level transactions ---- *)
Inductive op : Type :=
| OBankSend (from to : addr) (coins : list coin)
| OTransfer (ta from to : addr) (n : N)
| OTransferFrom (ta spender owner to : addr) (n : N)
| OIncreaseAllowance (ta owner spender : addr) (n : N)
| OMint (ta sender to : addr) (n : N)
| OBurn (ta sender : addr) (n : N)
| OSend (ta sender target : addr) (n : N) (h : hook)
| OProvide (p caller : addr) (funds : list coin) (l0 : asset) (n0 : N) (l1 : asset) (n1 : N)
           (tol : option N) (receiver : option addr)
| OSwap (p caller : addr) (funds : list coin) (offer : asset) (amount : N) (belief ms : option N) (to : option addr)
| OPairReceive (p caller : addr) (funds : list coin) (cw_sender : addr) (cw_amount : N) (h : hook)
| OPairUpdateDecimals (p caller : addr) (dn : denom) (d0 d1 : N)
| ORouterOps (caller : addr) (funds : list coin) (ops : list (asset * asset)) (m : option N) (to : option addr)
| ORouterOp (caller : addr) (funds : list coin) (offer ask : asset) (to : option addr)
| ORouterAssertMin (caller : addr) (target : asset) (prev minimum : N) (receiver : addr)
| ORouterReceive (caller : addr) (cw_sender : addr) (cw_amount : N) (h : hook)
| OFacUpdateConfig (caller : addr) (new_owner : option addr)
| OFacCreatePair (caller : addr) (a0 a1 : asset) (wl : list addr) (min0 min1 : N) (comm lpdec : option N)
| OFacAddNative (caller : addr) (dn : denom) (k : N)
| OFacMigrate (caller : addr) (contract : addr)
| OSendFrom (ta spender owner target : addr) (n : N) (h : hook)
| OBurnFrom (ta spender owner : addr) (n : N)
| ODecreaseAllowance (ta owner spender : addr) (n : N).

Definition exec (w : world) (o : op) : res world :=
  match o with
  | OBankSend from to cs => bank_send w from to cs
  | OTransfer ta from to n => with_token w ta (fun t => tok_transfer t from to n)
  | OTransferFrom ta sp ow to n => with_token w ta (fun t => tok_transfer_from t sp ow to n)
  | OIncreaseAllowance ta ow sp n => with_token w ta (fun t => tok_increase_allowance t ow sp n)
  | OMint ta s to n => with_token w ta (fun t => tok_mint t s to n)
  | OBurn ta s n => with_token w ta (fun t => tok_burn t s n)
  | OSend ta s target n h => cw20_send w ta s target n h
  | OProvide p caller funds l0 n0 l1 n1 tol rcv =>
      match w_pairs w p with
      | None => Err EStd
      | Some ps => let* w1 := move_funds w caller p funds in
                   pair_provide w1 p ps caller funds l0 n0 l1 n1 tol rcv
      end
  | OSwap p caller funds offer amount belief ms to =>
      match w_pairs w p with
      | None => Err EStd
      | Some ps =>
          let* w1 := move_funds w caller p funds in
          if negb (asset_is_native offer) then Err EUnauthorized else
          let* r := pair_swap w1 p ps funds caller offer amount belief ms to in Ok (fst r)
      end
  | OPairReceive p caller funds cs ca h =>
      match w_pairs w p with
      | None => Err EStd
      | Some ps => let* w1 := move_funds w caller p funds in pair_receive w1 p ps caller funds cs ca h
      end
  | OPairUpdateDecimals p caller dn d0 d1 =>
      match w_pairs w p with
      | None => Err EStd
      | Some ps => pair_update_decimals w p ps caller dn d0 d1
      end
  | ORouterOps caller funds ops m to =>
      let* w1 := move_funds w caller (w_rtr w) funds in router_exec_ops w1 caller ops m to
  | ORouterOp caller funds offer ask to =>
      let* w1 := move_funds w caller (w_rtr w) funds in
      if negb (caller =? w_rtr w) then Err EStd else router_hop w1 offer ask to
  | ORouterAssertMin caller target prev m rcv =>
      if negb (caller =? w_rtr w) then Err EStd else router_assert_min w target prev m rcv
  | ORouterReceive caller cs ca h =>
      match h with
      | HRouterOps ops m to => router_exec_ops w cs ops m to
      | _ => Err EStd
      end
  | OFacUpdateConfig caller o => fac_update_config w caller o
  | OFacCreatePair caller a0 a1 wl m0 m1 c ld => fac_create_pair w caller a0 a1 wl m0 m1 c ld
  | OFacAddNative caller dn k => fac_add_native w caller dn k
  | OFacMigrate caller c => fac_migrate_pair w caller c
  | OSendFrom ta sp ow target n h => cw20_send_from w ta sp ow target n h
  | OBurnFrom ta sp ow n => with_token w ta (fun t => tok_burn_from t sp ow n)
  | ODecreaseAllowance ta ow sp n => with_token w ta (fun t => tok_decrease_allowance t ow sp n)
  end.

(* a failed transaction changes nothing *)
Definition step (w : world) (o : op) : world := match exec w o with Ok w' => w' | Err _ => w end.
Definition run (w : world) (ops : list op) : world := fold_left step ops w.

(* ---- queries ---- *)
Definition q_simulation (w : world) (p : addr) (offer : asset) (amount : N) : res (N * N * N) :=
  match w_pairs w p with
  | None => Err EStd
  | Some ps =>
      let* r0 := asset_balance w (p_a0 ps) p in
      let* r1 := asset_balance w (p_a1 ps) p in
      if asset_eqb offer (p_a0 ps) then compute_swap r0 r1 amount (p_comm ps)
      else if asset_eqb offer (p_a1 ps) then compute_swap r1 r0 amount (p_comm ps)
      else Err EAssetMismatch
  end.
Definition q_reverse_simulation (w : world) (p : addr) (ask : asset) (amount : N) : res (N * N * N) :=
  match w_pairs w p with
  | None => Err EStd
  | Some ps =>
      let* r0 := asset_balance w (p_a0 ps) p in
      let* r1 := asset_balance w (p_a1 ps) p in
      if asset_eqb ask (p_a0 ps) then compute_offer_amount r1 r0 amount (p_comm ps)
      else if asset_eqb ask (p_a1 ps) then compute_offer_amount r0 r1 amount (p_comm ps)
      else Err EAssetMismatch
  end.
Fixpoint q_router_simulate (w : world) (amount : N) (ops : list (asset * asset)) : res N :=
  match ops with
  | [] => Ok amount
  | (o, a) :: rest =>
      match reg_find (w_reg w) o a with
      | None => Err EStd
      | Some r => let* out := q_simulation w (f_pair r) o amount in
                  let '(ret, _, _) := out in q_router_simulate w ret rest
      end
  end.
Definition q_router_simulate_ops (w : world) (amount : N) (ops : list (asset * asset)) : res N :=
  match ops with [] => Err EStd | _ => q_router_simulate w amount ops end.
Fixpoint q_router_reverse (w : world) (amount : N) (rev_ops : list (asset * asset)) : res N :=
  match rev_ops with
  | [] => Ok amount
  | (o, a) :: rest =>
      match reg_find (w_reg w) o a with
      | None => Err Panic
      | Some r => match q_reverse_simulation w (f_pair r) a amount with
                  | Ok (offer, _, _) => q_router_reverse w offer rest
                  | Err _ => Err Panic
                  end
      end
  end.
Definition q_router_reverse_ops (w : world) (amount : N) (ops : list (asset * asset)) : res N :=
  match ops with [] => Err EStd | _ => q_router_reverse w amount (rev ops) end.
