(* Decidable property monitors evaluated on the IMPLEMENTATION's snapshots (pre, post), the
   operation, its outcome and the swap attributes it emitted.  They restate the properties on
   observable quantities only; the theorems about the model are in Props/. *)
From HT Require Import Base.Prelude Num.Arith Amm.Formulas Amm.Guards Amm.Known World.World World.Observe.

(* queries the driver put to the contracts in the state just before the operation, with their answers *)
Inductive query : Type :=
| QSim (p : addr) (offer : asset) (amount : N)
| QRevSim (p : addr) (ask : asset) (amount : N)
| QRSim (amount : N) (ops : list (asset * asset))
| QRRevSim (amount : N) (ops : list (asset * asset))
(* the same router questions answered by the driver composing the PAIR queries hop by hop *)
| QRSimCompose (amount : N) (ops : list (asset * asset))
| QRRevSimCompose (amount : N) (ops : list (asset * asset))
(* a client's walk over the factory's pair listing with the given page size: the pair contracts visited, ascending *)
| QPairsWalk (limit : option N).
Fixpoint insert_sorted (x : N) (l : list N) : list N :=
  match l with [] => [x] | y :: r => if x <=? y then x :: l else y :: insert_sorted x r end.
Definition sort_n (l : list N) : list N := fold_right insert_sorted [] l.
Definition eval_query (w : world) (q : query) : res (list N) :=
  match q with
  | QSim p o a => let* r := q_simulation w p o a in let '(x, y, z) := r in Ok [x; y; z]
  | QRevSim p k a => let* r := q_reverse_simulation w p k a in let '(x, y, z) := r in Ok [x; y; z]
  | QRSim a ops => let* r := q_router_simulate_ops w a ops in Ok [r]
  | QRRevSim a ops => let* r := q_router_reverse_ops w a ops in Ok [r]
  | QRSimCompose a ops => let* r := q_router_simulate_ops w a ops in Ok [r]
  | QRRevSimCompose a ops => let* r := q_router_reverse_ops w a ops in Ok [r]
  | QPairsWalk _ => Ok (sort_n (map f_pair (w_reg w)))
  end.
Fixpoint ops_eqb (l1 l2 : list (asset * asset)) : bool :=
  match l1, l2 with
  | [], [] => true
  | (a, b) :: l1, (c, d) :: l2 => asset_eqb a c && asset_eqb b d && ops_eqb l1 l2
  | _, _ => false
  end.
Definition opt_nlist_eqb (a b : option (list N)) : bool :=
  match a, b with
  | Some x, Some y => (fix eqb (l1 l2 : list N) := match l1, l2 with [] , [] => true | u :: l1, v :: l2 => (u =? v) && eqb l1 l2 | _, _ => false end) x y
  | None, None => true
  | _, _ => false
  end.
(* C12, router clause, on the implementation's own answers: the router's simulation equals the
   composition of the pair queries the driver made in the same state *)
Definition router_quotes_consistent (qs : list (query * option (list N))) : bool :=
  forallb (fun qa =>
    match fst qa with
    | QRSim a ops =>
        forallb (fun qb => match fst qb with
                           | QRSimCompose a' ops' => if (a =? a') && ops_eqb ops ops' then opt_nlist_eqb (snd qa) (snd qb) else true
                           | _ => true end) qs
    | QRRevSim a ops =>
        forallb (fun qb => match fst qb with
                           | QRRevSimCompose a' ops' => if (a =? a') && ops_eqb ops ops' then opt_nlist_eqb (snd qa) (snd qb) else true
                           | _ => true end) qs
    | _ => true
    end) qs.

Record hstep := HS {
  hs_queries : list (query * option (list N));
  hs_op : op; hs_ok : bool;
  hs_extras : list N;            (* per executed swap: offer, return, spread, commission *)
  hs_quote : list N;             (* what the driver asked the contracts to quote just before *)
  hs_delta : list (N * N) }.

Definition monitor := layout -> list N -> hstep -> list N -> bool * bool.   (* (property ok, in known class) *)

Definition all_accounts_b (L : layout) (f : addr -> bool) : bool := forallb f (accounts L).
Definition all_assets (L : layout) : list asset := map ANative (denoms L) ++ map AToken (token_ids L).
Definition setup_assets (L : layout) : list asset := map ANative (denoms L) ++ map AToken (seqN 2 (l_tokens L)).
Definition sumN (l : list N) : N := fold_left N.add l 0.
Definition total L s (a : asset) : N := sumN (map (s_asset_bal L s a) (accounts L)).
Definition existing_pairs L s : list addr := filter (fun p => s_pair L s p 0 =? 1) (pair_ids L).
Definition coins_of (d : denom) (cs : list coin) : N :=
  match find (fun c => fst c =? d) cs with Some c => snd c | None => 0 end.
Definition is_lp L s (t : addr) : bool := existsb (fun p => s_pair L s p 7 =? t) (existing_pairs L s).

(* a failed transaction changes nothing observable *)
Definition fail_unchanged (st : hstep) : bool := if hs_ok st then true else match hs_delta st with [] => true | _ => false end.

(* ---- who an operation may touch ---- *)
Definition route_pairs L s (ops : list (asset * asset)) : list addr :=
  flat_map (fun o => filter (fun p => same_assets (s_pair_asset L s p 0) (s_pair_asset L s p 1) (fst o) (snd o))
                            (existing_pairs L s)) ops.
Definition hook_touch L s (target sender : addr) (h : hook) : list addr :=
  match h with
  | HSwap _ _ _ _ to => target :: sender :: (match to with Some t => [t] | None => [] end)
  | HWithdraw => [target; sender]
  | HRouterOps ops _ to => target :: sender :: route_pairs L s ops ++ (match to with Some t => [t] | None => [] end)
  | HGarbage => [target; sender]
  end.
Definition touched L s (o : op) : list addr :=
  match o with
  | OBankSend f t _ => [f; t]
  | OTransfer _ f t _ => [f; t]
  | OTransferFrom _ sp ow t _ => [sp; ow; t]
  | OIncreaseAllowance _ ow sp _ => [ow; sp]
  | OMint _ sd t _ => [sd; t]
  | OBurn _ sd _ => [sd]
  | OSend _ sd target _ h => hook_touch L s target sd h
  | OProvide p c _ _ _ _ _ _ r => p :: c :: (match r with Some x => [x] | None => [] end)
  | OSwap p c _ _ _ _ _ t => p :: c :: (match t with Some x => [x] | None => [] end)
  | OPairReceive p c _ cs _ h => c :: hook_touch L s p cs h
  | OPairUpdateDecimals p c _ _ _ => [p; c]
  | ORouterOps c _ ops _ t => 1 :: c :: route_pairs L s ops ++ (match t with Some x => [x] | None => [] end)
  | ORouterOp c _ of ak t => 1 :: c :: route_pairs L s [(of, ak)] ++ (match t with Some x => [x] | None => [] end)
  | ORouterAssertMin c _ _ _ _ => [c]
  | ORouterReceive c cs _ h => c :: hook_touch L s 1 cs h
  | OFacUpdateConfig c _ => [c]
  | OFacCreatePair c _ _ _ _ _ _ _ => [c]
  | OFacAddNative c _ _ => [c]
  | OFacMigrate c _ => [c]
  | OSendFrom _ sp ow target _ h => ow :: hook_touch L s target sp h
  | OBurnFrom _ sp ow _ => [sp; ow]
  | ODecreaseAllowance _ ow sp _ => [ow; sp]
  end.
(* the designated receiver, when it is someone other than the caller / contract *)
Definition pure_receiver (o : op) : option addr :=
  match o with
  | OProvide p c _ _ _ _ _ _ (Some r) => if (r =? p) || (r =? c) then None else Some r
  | OSwap p c _ _ _ _ _ (Some r) => if (r =? p) || (r =? c) then None else Some r
  | OSend _ sd tg _ (HSwap _ _ _ _ (Some r)) => if (r =? tg) || (r =? sd) then None else Some r
  | OSendFrom _ sp ow tg _ (HSwap _ _ _ _ (Some r)) => if (r =? tg) || (r =? sp) || (r =? ow) then None else Some r
  | ORouterOps c _ ops _ (Some r) => if (r =? 1) || (r =? c) then None else Some r
  | _ => None
  end.

(* C07 *)
Definition mon_C07 : monitor := fun L s st s' =>
  if negb (hs_ok st) then (fail_unchanged st, false) else
  let o := hs_op st in
  let tch := touched L s o in
  let frame :=
    all_accounts_b L (fun a =>
      if mem_addr a tch then true
      else forallb (fun x => (s_asset_bal L s x a =? s_asset_bal L s' x a) ||
                             (* the reserved LP unit: exactly one, minted to the LP token's own address by the
                                provision that finds the supply at zero, and at no other time *)
                             (match x, o with
                              | AToken t, OProvide p _ _ _ _ _ _ _ _ =>
                                  (t =? a) && (t =? s_pair L s' p 7) && (s_supply L s t =? 0) &&
                                  (s_asset_bal L s x a =? 0) && (s_asset_bal L s' x a =? 1)
                              | _, _ => false end))
                   (all_assets L)) in
  let recv_ok := match pure_receiver o with
                 | None => true
                 | Some r => if mem_addr r (route_pairs L s (match o with ORouterOps _ _ ops _ _ => ops | _ => [] end)) then true
                             else forallb (fun x => s_asset_bal L s x r <=? s_asset_bal L s' x r) (all_assets L)
                 end in
  let conserve :=
    forallb (fun x =>
      match x, o with
      | AToken t, OMint t' _ _ n => if t =? t' then total L s' x =? total L s x + n else total L s' x =? total L s x
      | AToken t, OBurn t' _ n => if t =? t' then total L s' x + n =? total L s x else total L s' x =? total L s x
      | AToken t, OBurnFrom t' _ _ n => if t =? t' then total L s' x + n =? total L s x else total L s' x =? total L s x
      | _, _ => total L s' x =? total L s x
      end) (setup_assets L) in
  (* every cw20's balances always add up to its supply *)
  let supplies := forallb (fun t => (s_tok_exists L s' t =? 0) || (total L s' (AToken t) =? s_supply L s' t)) (token_ids L) in
  (* LP supply moves only with a provision, a withdrawal (or the holder's own burn) *)
  let lp_ok :=
    forallb (fun p => let lp := s_pair L s p 7 in
      (s_supply L s lp =? s_supply L s' lp) ||
      match o with
      (* a provision only mints (no LP balance falls, whoever holds it - the pair's own idle LP included); a withdrawal
         takes exactly the amount sent out of the supply and leaves the pair's own LP balance where it was *)
      | OProvide p' _ _ _ _ _ _ _ _ =>
          (p' =? p) && (s_supply L s lp <? s_supply L s' lp) &&
          all_accounts_b L (fun a => s_bal L s lp a <=? s_bal L s' lp a)
      | OSend t _ tg n HWithdraw =>
          (t =? lp) && (tg =? p) && (s_supply L s' lp + n =? s_supply L s lp) && (s_bal L s' lp p =? s_bal L s lp p)
      | OBurn t _ _ => t =? lp
      | OSendFrom t _ _ tg n HWithdraw =>
          (t =? lp) && (tg =? p) && (s_supply L s' lp + n =? s_supply L s lp) && (s_bal L s' lp p =? s_bal L s lp p)
      | OBurnFrom t _ _ _ => t =? lp
      | _ => false
      end) (existing_pairs L s) in
  (* a Receive envelope handed to a contract directly names a `sender` of the caller's choosing: that account can at most
     be paid, never charged *)
  let envelope_ok :=
    match o with
    | ORouterReceive c cs _ _ => (cs =? c) || forallb (fun x => s_asset_bal L s x cs <=? s_asset_bal L s' x cs) (all_assets L)
    | OPairReceive _ c _ cs _ _ => (cs =? c) || forallb (fun x => s_asset_bal L s x cs <=? s_asset_bal L s' x cs) (all_assets L)
    | _ => true
    end in
  (frame && recv_ok && conserve && supplies && lp_ok && envelope_ok, false).

(* C03 / C01 at system level: reserve0*reserve1/supply^2 never decreases; swaps in the known class exempt *)
Definition pair_reserves L s p : N * N :=
  (s_asset_bal L s (s_pair_asset L s p 0) p, s_asset_bal L s (s_pair_asset L s p 1) p).
Fixpoint swap_offers (ex : list N) : list N :=
  match ex with a :: _ :: _ :: _ :: rest => a :: swap_offers rest | _ => [] end.
Definition mon_C03 : monitor := fun L s st s' =>
  if negb (hs_ok st) then (fail_unchanged st, false) else
  let res := map (fun p =>
      let lp := s_pair L s p 7 in
      let S := s_supply L s lp in let S' := s_supply L s' lp in
      let '(r0, r1) := pair_reserves L s p in let '(r0', r1') := pair_reserves L s' p in
      if S =? 0 then (true, false) else
      let ok := negb (S' =? 0) && (r0 * r1 * (S' * S') <=? r0' * r1' * (S * S)) in
      let c := s_pair L s p 10 in
      let known := existsb (fun a => (kf_c01 r0 r1 a c && is_ok (compute_swap r0 r1 a c)) || (kf_c01 r1 r0 a c && is_ok (compute_swap r1 r0 a c))) (swap_offers (hs_extras st)) in
      (ok, known)) (existing_pairs L s) in
  (forallb fst res, existsb (fun r => negb (fst r) && snd r) res && forallb (fun r => fst r || snd r) res).

Definition mon_C01 : monitor := fun L s st s' =>
  if negb (hs_ok st) then (fail_unchanged st, false) else
  match hs_extras st with
  | [] => (true, false)
  | _ =>
    let res := map (fun p =>
      let '(r0, r1) := pair_reserves L s p in let '(r0', r1') := pair_reserves L s' p in
      let changed := negb ((r0 =? r0') && (r1 =? r1')) in
      let is_swap_op := match hs_op st with OProvide _ _ _ _ _ _ _ _ _ => false | OSend _ _ _ _ HWithdraw => false | OSendFrom _ _ _ _ _ HWithdraw => false | _ => true end in
      if negb (changed && is_swap_op) then (true, false) else
      let ok := (r0 * r1 <=? r0' * r1') && ((r0 =? 0) || negb (r0' =? 0)) && ((r1 =? 0) || negb (r1' =? 0)) in
      let c := s_pair L s p 10 in
      (ok, existsb (fun a => (kf_c01 r0 r1 a c && is_ok (compute_swap r0 r1 a c)) || (kf_c01 r1 r0 a c && is_ok (compute_swap r1 r0 a c))) (swap_offers (hs_extras st))))
      (existing_pairs L s) in
    (forallb fst res, existsb (fun r => negb (fst r) && snd r) res && forallb (fun r => fst r || snd r) res)
  end.

(* C02: direct swaps on a pair (execute or cw20 hook) *)
Definition swap_settlement L s s' (p caller : addr) (funds : list coin) (offer : asset) (amount : N)
           (to : option addr) (sender : addr) (extras : list N) : bool :=
  match extras with
  | [a; ret; _; _] =>
      let a0 := s_pair_asset L s p 0 in let a1 := s_pair_asset L s p 1 in
      let ask := if asset_eqb offer a0 then a1 else a0 in
      let rcv := match to with Some t => t | None => sender end in
      let donated := match ask with ANative d => coins_of d funds | AToken _ => 0 end in
      (a =? amount) && (asset_eqb offer a0 || asset_eqb offer a1) &&
      (s_asset_bal L s' offer p =? s_asset_bal L s offer p + amount) &&
      (if rcv =? p then s_asset_bal L s' ask p =? s_asset_bal L s ask p + donated
       else (s_asset_bal L s' ask p + ret =? s_asset_bal L s ask p + donated) &&
            (if rcv =? caller then s_asset_bal L s' ask rcv + donated =? s_asset_bal L s ask rcv + ret
             else s_asset_bal L s' ask rcv =? s_asset_bal L s ask rcv + ret))
  | _ => false
  end.
Definition mon_C02 : monitor := fun L s st s' =>
  if negb (hs_ok st) then (fail_unchanged st, false) else
  (match hs_op st with
   | OSwap p c funds offer amount _ _ to =>
       asset_is_native offer && swap_settlement L s s' p c funds offer amount to c (hs_extras st)
   | OSend ta sd p n (HSwap offer amount _ _ to) =>
       if s_pair L s p 0 =? 1 then
         (n =? amount) && asset_eqb offer (AToken ta) && swap_settlement L s s' p sd [] offer amount to sd (hs_extras st)
       else true
   (* SendFrom: the owner pays, the hook's sender (the spender) is the default receiver *)
   | OSendFrom ta sp _ p n (HSwap offer amount _ _ to) =>
       if s_pair L s p 0 =? 1 then
         (n =? amount) && asset_eqb offer (AToken ta) && swap_settlement L s s' p sp [] offer amount to sp (hs_extras st)
       else true
   | OPairReceive p c funds cs ca (HSwap offer amount _ _ to) =>
       (* a hook can only come from the named token contract, which never calls by itself *)
       false
   (* a payload that is no hook message: if the pair nevertheless reports a swap, that swap must be the settlement of
      exactly the n units of the token that was sent, in favour of the sender *)
   | OSend ta sd p n HGarbage =>
       if s_pair L s p 0 =? 1 then
         match hs_extras st with [] => true | ex => swap_settlement L s s' p sd [] (AToken ta) n None sd ex end
       else true
   | _ => true
   end, false).

(* C09: a native asset named with amount v needs exactly v attached *)
Definition native_exact (a : asset) (v : N) (funds : list coin) : bool :=
  match a with ANative d => coins_of d funds =? v | AToken _ => true end.
Definition mon_C09 : monitor := fun L s st s' =>
  if negb (hs_ok st) then (fail_unchanged st, false) else
  (match hs_op st with
   | OProvide p c funds l0 n0 l1 n1 _ _ =>
       native_exact l0 n0 funds && native_exact l1 n1 funds &&
       forallb (fun la => match fst la with
                          | ANative d => s_bank L s' p d =? s_bank L s p d + snd la
                          | AToken _ => true end) [(l0, n0); (l1, n1)] &&
       (* "never credits native value that was not attached": on a pool with supply, the LP minted is covered by the
          coins actually attached in each native pool asset: m * reserve_d <= attached_d * supply *)
       (let lp := s_pair L s p 7 in
        let S0 := s_supply L s lp in
        let m := s_supply L s' lp - S0 in
        if S0 =? 0 then true else
        forallb (fun a => match a with
                          | ANative d => m * s_bank L s p d <=? coins_of d funds * S0
                          | AToken _ => true end) [s_pair_asset L s p 0; s_pair_asset L s p 1])
   | OSwap p c funds offer amount _ _ _ => native_exact offer amount funds
   | OPairReceive p c funds _ _ (HSwap offer amount _ _ _) => native_exact offer amount funds
   | _ => true
   end, false).

(* C11 *)
Definition mon_C11 : monitor := fun L s st s' =>
  if negb (hs_ok st) then (fail_unchanged st, false) else
  (match hs_op st with
   | ORouterOps c funds ops (Some m) to =>
       let rcv := match to with Some t => t | None => c end in
       let target := last_ask ops in
       let paid := if rcv =? c then match target with ANative d => coins_of d funds | AToken _ => 0 end else 0 in
       s_asset_bal L s target rcv + m <=? s_asset_bal L s' target rcv + paid
   | OSend ta sd 1 n (HRouterOps ops (Some m) to) =>
       let rcv := match to with Some t => t | None => sd end in
       let target := last_ask ops in
       let paid := if (rcv =? sd) && asset_eqb target (AToken ta) then n else 0 in
       s_asset_bal L s target rcv + m <=? s_asset_bal L s' target rcv + paid
   | _ => true
   end, false).

(* C14 *)
Definition mon_C14 : monitor := fun L s st s' =>
  if negb (hs_ok st) then (fail_unchanged st, false) else
  (match hs_op st with
   | OFacUpdateConfig c o => (c =? s_owner L s) && (match o with Some x => s_owner L s' =? x | None => s_owner L s' =? s_owner L s end)
   | OFacCreatePair c _ _ _ _ _ _ _ => c =? s_owner L s
   | OFacAddNative c _ _ => c =? s_owner L s
   | OFacMigrate c _ => c =? s_owner L s
   | OPairUpdateDecimals p c _ _ _ => c =? 0
   | OPairReceive p c _ _ _ HWithdraw => c =? s_pair L s p 7
   | OPairReceive p c _ _ _ (HSwap _ _ _ _ _) =>
       asset_eqb (s_pair_asset L s p 0) (AToken c) || asset_eqb (s_pair_asset L s p 1) (AToken c)
   | OPairReceive _ _ _ _ _ _ => false
   (* hooks relayed by a cw20 Send to a pair: a withdraw hook only from the pair's own LP token, a swap hook only
      from one of the pair's cw20 assets *)
   | OSend ta _ p _ HWithdraw => if mem_addr p (existing_pairs L s) then ta =? s_pair L s p 7 else true
   | OSend ta _ p _ (HSwap _ _ _ _ _) =>
       if mem_addr p (existing_pairs L s)
       then asset_eqb (s_pair_asset L s p 0) (AToken ta) || asset_eqb (s_pair_asset L s p 1) (AToken ta) else true
   | OSendFrom ta _ _ p _ HWithdraw => if mem_addr p (existing_pairs L s) then ta =? s_pair L s p 7 else true
   | OSendFrom ta _ _ p _ (HSwap _ _ _ _ _) =>
       if mem_addr p (existing_pairs L s)
       then asset_eqb (s_pair_asset L s p 0) (AToken ta) || asset_eqb (s_pair_asset L s p 1) (AToken ta) else true
   (* a Receive envelope delivered to the router directly carries no authority: only a well-formed route hook, relayed by a
      cw20 the sender actually holds, can succeed; anything else in the payload (e.g. the router's internal messages) cannot *)
   | ORouterReceive _ _ _ HGarbage => false
   | ORouterReceive _ _ _ HWithdraw => false
   | ORouterReceive _ _ _ (HSwap _ _ _ _ _) => false
   | ORouterOp c _ _ _ _ => c =? 1
   | ORouterAssertMin c _ _ _ _ => c =? 1
   | _ => true
   end, false).

(* C16 / C17: factory record = pair self-description, decimals follow the denom registry *)
Definition pair_consistent L s (p : addr) : bool :=
  (s_pair L s p 13 =? 1) && (s_pair L s p 14 =? p) && (s_pair L s p 15 =? s_pair L s p 7) &&
  forallb (fun i => s_pair L s p (1 + i) =? s_pair L s p (16 + i)) [0; 1; 2; 3] &&
  (s_pair L s p 5 =? s_pair L s p 20) && (s_pair L s p 6 =? s_pair L s p 21) &&
  (s_pair L s p 8 =? s_pair L s p 22) && (s_pair L s p 9 =? s_pair L s p 23) &&
  (s_pair L s p 10 =? s_pair L s p 24) && (s_pair L s p 11 =? s_pair L s p 25) && (s_pair L s p 12 =? s_pair L s p 26) &&
  (* looking the pair up with its assets in the other order returns the same record, assets and decimals
     in the pair's own order *)
  (s_pair L s p 27 =? 1) && (s_pair L s p 28 =? p) &&
  forallb (fun i => s_pair L s p (1 + i) =? s_pair L s p (29 + i)) [0; 1; 2; 3] &&
  (s_pair L s p 5 =? s_pair L s p 33) && (s_pair L s p 6 =? s_pair L s p 34).
Definition decimals_true L s (p : addr) : bool :=
  forallb (fun i => match s_pair_asset L s p i with
                    | ANative d => s_native L s d =? s_pair L s p (5 + i) + 1
                    | AToken t => sget s (off_tokens L + token_pos L t * tok_stride L + 2) =? s_pair L s p (5 + i)
                    end) [0; 1].
Definition mon_C16 : monitor := fun L s st s' =>
  if negb (hs_ok st) then (fail_unchanged st, false) else
  (forallb (pair_consistent L s') (existing_pairs L s') &&
   (* a creation adds exactly one pair, for two different assets, with their true decimals *)
   match hs_op st with
   | OFacCreatePair _ a0 a1 _ _ _ _ _ =>
       let new := filter (fun p => s_pair L s p 0 =? 0) (existing_pairs L s') in
       match new with
       | [p] => negb (asset_eqb a0 a1) && asset_eqb (s_pair_asset L s' p 0) a0 && asset_eqb (s_pair_asset L s' p 1) a1 &&
                decimals_true L s' p &&
                negb (existsb (fun q => same_assets (s_pair_asset L s q 0) (s_pair_asset L s q 1) a0 a1) (existing_pairs L s))
       | _ => false
       end
   | _ => N.of_nat (length (existing_pairs L s')) =? N.of_nat (length (existing_pairs L s))
   end, false).
Definition mon_C17 : monitor := fun L s st s' =>
  if negb (hs_ok st) then (fail_unchanged st, false) else
  (forallb (fun p => pair_consistent L s' p && decimals_true L s' p) (existing_pairs L s') &&
   match hs_op st with
   | OFacAddNative _ dn k => s_native L s' dn =? k + 1
   | _ => true
   end, false).

(* C20: an entitled withdrawal must succeed *)
Definition mon_C20 : monitor := fun L s st s' =>
  match hs_op st with
  | OSend lp holder p a HWithdraw =>
      if (s_pair L s p 0 =? 1) && (s_pair L s p 7 =? lp) && (1 <=? a) && (a <=? s_bal L s lp holder) &&
         (USER0 <=? holder) then
        let S := s_supply L s lp in
        let '(r0, r1) := pair_reserves L s p in
        let entitled := (r0 * S + 2 * S * D <=? r0 * a * D) && (r1 * S + 2 * S * D <=? r1 * a * D) in
        (if entitled then hs_ok st else true, false)
      else (fail_unchanged st, false)
  | _ => (fail_unchanged st, false)
  end.

(* C04: what a successful withdrawal pays *)
Definition mon_C04 : monitor := fun L s st s' =>
  if negb (hs_ok st) then (fail_unchanged st, false) else
  (match hs_op st with
   | OSend lp holder p a HWithdraw =>
       if (s_pair L s p 0 =? 1) && (s_pair L s p 7 =? lp) then
         let S := s_supply L s lp in
         let '(r0, r1) := pair_reserves L s p in
         let a0 := s_pair_asset L s p 0 in let a1 := s_pair_asset L s p 1 in
         let x0 := s_asset_bal L s' a0 holder - s_asset_bal L s a0 holder in
         let x1 := s_asset_bal L s' a1 holder - s_asset_bal L s a1 holder in
         (s_supply L s' lp + a =? S) && (s_bal L s' lp holder + a =? s_bal L s lp holder) &&
         (s_asset_bal L s' a0 p + x0 =? r0) && (s_asset_bal L s' a1 p + x1 =? r1) &&
         (x0 * S <=? r0 * a) && (r0 * a * D <? (x0 + 1) * S * D + r0 * S) &&
         (x1 * S <=? r1 * a) && (r1 * a * D <? (x1 + 1) * S * D + r1 * S)
       else
         (* a withdraw hook relayed by a token that is NOT the pair's share token was honoured: a pair pays its reserves out
            only against its own LP supply *)
         negb (s_pair L s p 0 =? 1)
   | _ => true
   end, false).

(* C05: what a successful provision mints and pulls *)
Definition mon_C05 : monitor := fun L s st s' =>
  if negb (hs_ok st) then (fail_unchanged st, false) else
  (match hs_op st with
   | OProvide p c funds l0 n0 l1 n1 _ rcv =>
       let lp := s_pair L s p 7 in
       let S := s_supply L s lp in let S' := s_supply L s' lp in
       let a0 := s_pair_asset L s p 0 in let a1 := s_pair_asset L s p 1 in
       let d0 := if asset_eqb l0 a0 then n0 else n1 in
       let d1 := if asset_eqb l1 a1 then n1 else n0 in
       let '(r0, r1) := pair_reserves L s p in
       let r := match rcv with Some x => x | None => c end in
       let m := s_bal L s' lp r - s_bal L s lp r in
       (s_asset_bal L s' a0 p =? r0 + d0) && (s_asset_bal L s' a1 p =? r1 + d1) &&
       ((c =? p) || ((s_asset_bal L s' a0 c + d0 =? s_asset_bal L s a0 c) && (s_asset_bal L s' a1 c + d1 =? s_asset_bal L s a1 c))) &&
       (if S =? 0 then
          (* only an account the pair's whitelist names can make the first provision *)
          ((c <? USER0) || N.testbit (s_pair L s p 35) (c - USER0)) &&
          (S' * S' <=? d0 * d1) && (d0 * d1 <? (S' + 1) * (S' + 1)) && (s_bal L s' lp lp =? 1) &&
          ((r =? lp) || (m + 1 =? S')) && (s_pair L s p 8 <=? d0) && (s_pair L s p 9 <=? d1)
        else
          (1 <=? m) && (S' =? S + m) && (m * r0 <=? d0 * S) && (m * r1 <=? d1 * S) &&
          ((d0 * S <? (m + 1) * r0) || (d1 * S <? (m + 1) * r1)))
   | _ => true
   end, false).

(* C12 (forward): the quote taken just before equals what the swap reports *)
(* a reverse quote REFUSED although the documented closed form is defined for the reserves and the rate the pair itself
   reports (compute_offer_amount of the model is that closed form, abort conditions included) *)
Definition rev_refusals_justified L s (qs : list (query * option (list N))) : bool :=
  forallb (fun qa => match qa with
                     | (QRevSim p k a, None) =>
                         if mem_addr p (existing_pairs L s) then
                           let a0 := s_pair_asset L s p 0 in let a1 := s_pair_asset L s p 1 in
                           if asset_eqb k a0 || asset_eqb k a1 then
                             let offer := if asset_eqb k a0 then a1 else a0 in
                             negb (is_ok (compute_offer_amount (s_asset_bal L s offer p) (s_asset_bal L s k p) a (s_pair L s p 10)))
                           else true
                         else true
                     | _ => true end) qs.
Definition mon_C12 : monitor := fun L s st s' =>
  if negb (rev_refusals_justified L s (hs_queries st)) then (false, false) else
  if negb (router_quotes_consistent (hs_queries st)) then (false, false) else
  if negb (hs_ok st) then (fail_unchanged st, false) else
  (match hs_op st, hs_quote st, hs_extras st with
   | OSwap p _ funds offer _ _ _ _, [qr; qs; qc], [_; r; sp; c] =>
       (* coins of the ask denom attached to the same transaction are a donation that arrives before the
          swap is priced: the quote was for the state without it *)
       let ask := if asset_eqb offer (s_pair_asset L s p 0) then s_pair_asset L s p 1 else s_pair_asset L s p 0 in
       let donated := match ask with ANative d => coins_of d funds | AToken _ => 0 end in
       if donated =? 0 then (qr =? r) && (qs =? sp) && (qc =? c) else true
   | OSend _ _ _ _ (HSwap _ _ _ _ _), [qr; qs; qc], [_; r; sp; c] => (qr =? r) && (qs =? sp) && (qc =? c)
   (* the pair refused to quote the very swap that then went through (asked in the same state, nothing else attached) *)
   | OSwap p _ [(d, n)] (ANative d') amount _ _ _, [], [_; _; _; _] =>
       negb ((d =? d') && (n =? amount) &&
             existsb (fun qa => match qa with
                                | (QSim p' (ANative d'') a', None) => (p' =? p) && (d'' =? d') && (a' =? amount)
                                | _ => false end) (hs_queries st))
   | OSend ta _ p n (HSwap (AToken tb) amount _ _ _), [], [_; _; _; _] =>
       negb ((ta =? tb) && (n =? amount) &&
             existsb (fun qa => match qa with
                                | (QSim p' (AToken t'') a', None) => (p' =? p) && (t'' =? ta) && (a' =? amount)
                                | _ => false end) (hs_queries st))
   | _, _, _ => true
   end, false).

(* C13: a route through distinct pairs, entered with the router empty, delivers its own quote *)
Fixpoint nodupb (l : list N) : bool := match l with [] => true | x :: l => negb (mem_addr x l) && nodupb l end.
Definition route_assets (ops : list (asset * asset)) : list asset := flat_map (fun o => [fst o; snd o]) ops.
Definition mon_C13 : monitor := fun L s st s' =>
  if negb (hs_ok st) then (fail_unchanged st, false) else
  (let chk (c : addr) (paid_asset : asset) (paid : N) (ops : list (asset * asset)) (to : option addr) :=
     let rcv := match to with Some t => t | None => c end in
     let target := last_ask ops in
     let rp := route_pairs L s ops in
     if nodupb rp && forallb (fun x => s_asset_bal L s x 1 =? 0) (route_assets ops) &&
        negb (mem_addr rcv (1 :: rp))
     then
       forallb (fun x => s_asset_bal L s' x 1 =? 0) (route_assets ops) &&
       (negb (N.of_nat (length ops) =? 0)) &&
       match hs_quote st with
       | [q] => let back := if (rcv =? c) && asset_eqb target paid_asset then paid else 0 in
                s_asset_bal L s' target rcv + back =? s_asset_bal L s target rcv + q
       | _ => true
       end
     else true in
   (* an accepted route is non-empty and leaves exactly one dangling output asset (the router's own shape rule) *)
   let shape_ok (ops : list (asset * asset)) :=
     is_ok (assert_operations (map (fun o => (to_guard_asset (fst o), to_guard_asset (snd o))) ops)) in
   match hs_op st with
   | ORouterOps c funds ops _ to =>
       shape_ok ops &&
       (match ops with
        | (ANative d, _) :: _ =>
            (* the premise "the router holds none of the route's assets" also covers what arrives WITH the call: a coin of
               another route asset attached next to the input is such a holding (it stays in the router; C11's business) *)
            if forallb (fun cn : coin => (fst cn =? d) || negb (existsb (asset_eqb (ANative (fst cn))) (route_assets ops))) funds
            then chk c (ANative d) (coins_of d funds) ops to else true
        | _ => true end)
   | OSend ta sd 1 n (HRouterOps ops _ to) => shape_ok ops && chk sd (AToken ta) n ops to
   | _ => true
   end, false).

(* C06 at system level: the band, the commission equation and the sum identity for every direct swap, evaluated on
   the amounts the pair REPORTED and the reserves and commission rate it DESCRIBED just before *)
Definition mon_C06 : monitor := fun L s st s' =>
  if negb (hs_ok st) then (fail_unchanged st, false) else
  (let chk (p : addr) (offer : asset) (amount donated : N) :=
     match hs_extras st with
     | [a; n; sp; m] =>
         let a0 := s_pair_asset L s p 0 in let a1 := s_pair_asset L s p 1 in
         let ask := if asset_eqb offer a0 then a1 else a0 in
         let x := s_asset_bal L s offer p in let y := s_asset_bal L s ask p + donated in
         let c := s_pair L s p 10 in
         (a =? amount) && (c <=? D) &&
         (n * D * (x + a) <? y * a * (D - c) + D * (x + a)) &&
         (y * a * (D - c) <? n * D * (x + a) + D * (x + a)) &&
         (m =? c * (n + m) / D) && (n + m <=? y) && negb (x =? 0) && (n + m + sp =? a * y / x) &&
         (* the QUOTE the pair gave for this very offer in this very state obeys the same laws (the driver attaches a quote
            only then; a coin of the ask asset riding along changes the reserves after the quote) *)
         match hs_quote st with
         | [qn; qs; qm] =>
             if donated =? 0 then
               (qm =? c * (qn + qm) / D) && (qn + qm + qs =? amount * y / x) &&
               (qn * D * (x + amount) <? y * amount * (D - c) + D * (x + amount)) &&
               (y * amount * (D - c) <? qn * D * (x + amount) + D * (x + amount))
             else true
         | _ => true
         end
     | _ => true
     end in
   match hs_op st with
   | OSwap p _ [(d, k)] (ANative d') amount _ _ _ => if (d =? d') && (k =? amount) then chk p (ANative d') amount 0 else true
   (* two coins attached: the offered one, exactly, and one of the pair's other (native) asset, which is in the pool when the
      swap is priced *)
   | OSwap p _ [(d1, k1); (d2, k2)] (ANative d') amount _ _ _ =>
       if mem_addr p (existing_pairs L s) then
         let a0 := s_pair_asset L s p 0 in let a1 := s_pair_asset L s p 1 in
         let ask := if asset_eqb (ANative d') a0 then a1 else a0 in
         if (d1 =? d') && (k1 =? amount) && asset_eqb ask (ANative d2) then chk p (ANative d') amount k2
         else if (d2 =? d') && (k2 =? amount) && asset_eqb ask (ANative d1) then chk p (ANative d') amount k1
         else true
       else true
   | OSend ta _ p k (HSwap (AToken tb) amount _ _ _) =>
       if mem_addr p (existing_pairs L s) && (ta =? tb) && (k =? amount) then chk p (AToken ta) amount 0 else true
   (* a direct Swap naming a cw20 (nothing was delivered with the call): if the pair serves it, it is a swap of that amount
      against the reserves it held *)
   | OSwap p _ [] (AToken t) amount _ _ _ =>
       if mem_addr p (existing_pairs L s) then chk p (AToken t) amount 0 else true
   (* the rate the pair applies and describes is the rate it was created with (it travels there as a decimal string through
      the factory's message, the pair's instantiate message and storage) *)
   | OFacCreatePair _ _ _ _ _ _ comm _ =>
       let c := match comm with Some c => c | None => DEFAULT_COMMISSION end in
       forallb (fun p => mem_addr p (existing_pairs L s) || (s_pair L s' p 10 =? c)) (existing_pairs L s')
   | _ => true
   end, false).

(* C15 at system level: a provision that SUCCEEDED with a tolerance given satisfies both bounds, evaluated on the
   deposits the message declared and the reserves the pair held just before (net of the caller's own native deposit,
   which the snapshot before the transaction does not contain anyway); a tolerance above 100% never succeeds *)
Definition mon_C15 : monitor := fun L s st s' =>
  if negb (hs_ok st) then
    (* a provision refused WITH THE MAX-SLIPPAGE ERROR is unjustified when both left sides are at most the reserve ratio
       minus 10^-18 *)
    (fail_unchanged st &&
     match hs_op st, hs_extras st with
     | OProvide p c funds l0 n0 l1 n1 (Some t) _, [2] =>
         if mem_addr p (existing_pairs L s) && (t <=? D) then
           let a0 := s_pair_asset L s p 0 in
           let d0 := if asset_eqb l0 a0 then n0 else n1 in
           let d1 := if asset_eqb l0 a0 then n1 else n0 in
           let '(r0, r1) := pair_reserves L s p in
           negb ((d0 * (D - t) * r1 + r1 * d1 <=? r0 * D * d1) && (d1 * (D - t) * r0 + r0 * d0 <=? r1 * D * d0))
         else true
     | _, _ => true
     end, false) else
  (match hs_op st with
   | OProvide p c funds l0 n0 l1 n1 (Some t) _ =>
       let a0 := s_pair_asset L s p 0 in
       let d0 := if asset_eqb l0 a0 then n0 else n1 in
       let d1 := if asset_eqb l0 a0 then n1 else n0 in
       let '(r0, r1) := pair_reserves L s p in
       let lp := s_pair L s p 7 in
       if s_supply L s lp =? 0 then t <=? D else
       (t <=? D) &&
       (d0 * (D - t) * r1 <? r0 * d1 * D + 2 * d1 * r1) &&
       (d1 * (D - t) * r0 <? r1 * d0 * D + 2 * d0 * r0)
   | _ => true
   end, false).

Fixpoint nlist_eqb_w0 (l1 l2 : list N) : bool :=
  match l1, l2 with
  | [], [] => true
  | a :: l1, b :: l2 => (a =? b) && nlist_eqb_w0 l1 l2
  | _, _ => false
  end.
(* C19 at system level: every walk over the listing asked in a state visits exactly the pairs that exist in that state, each
   once, whatever the page size *)
Definition mon_C19 : monitor := fun L s st s' =>
  ((if hs_ok st then true else fail_unchanged st) &&
   forallb (fun qa => match qa with
                      | (QPairsWalk _, Some ids) => nlist_eqb_w0 ids (existing_pairs L s)
                      | (QPairsWalk _, None) => false
                      | _ => true end) (hs_queries st), false).

Definition mon_generic : monitor := fun L s st s' => (fail_unchanged st, false).

(* C10 at system level: a swap that SUCCEEDED with limits given satisfies the guard's bounds for the
   executed offer / return / spread and the decimals of the offered / asked asset *)
Definition guard_sound (bp ms : option N) (offer ret spread od rd : N) : bool :=
  match ms with
  | None => true
  | Some ms =>
      match normalise_decimals offer ret spread od rd with
      | Err _ => false
      | Ok (o, r, sp) =>
          match bp with
          | Some bp => negb (bp =? 0) &&
                       (let e := o * D / bp in (e <=? r) || ((e - r) * D <? (ms + 1) * e)) &&
                       (if (ms + 1 <=? D) && (bp <? o * D) then (o * D - bp) * (D - ms - 1) <? r * D * bp else true)
          | None => negb (r + sp =? 0) && (sp * D <? (ms + 1) * (r + sp))
          end
      end
  end.
(* the completeness half, for the spread-only mode: a direct swap that the pair refused WITH ITS MAX-SPREAD ERROR (the
   driver reports the class of the error text: 1 = max spread, 2 = max slippage, 0 = anything else) must really have a
   spread ratio above the limit, the amounts being what compute_swap gives on the reserves the pair held *)
Definition spread_reject_justified L s (p : addr) (offer : asset) (amount ms : N) : bool :=
  let a0 := s_pair_asset L s p 0 in let a1 := s_pair_asset L s p 1 in
  let ask := if asset_eqb offer a0 then a1 else a0 in
  match compute_swap (s_asset_bal L s offer p) (s_asset_bal L s ask p) amount (s_pair L s p 10) with
  | Ok (n, sp, _) => ms * (n + sp) <? sp * D
  | Err _ => true
  end.
(* the same for the belief-price mode: a max-spread refusal is unjustified when the decimals-normalised return is at least
   (offer/p)*(1-s) *)
Definition belief_reject_justified L s (p : addr) (offer : asset) (amount bp ms : N) : bool :=
  let a0 := s_pair_asset L s p 0 in let a1 := s_pair_asset L s p 1 in
  let first := asset_eqb offer a0 in
  let ask := if first then a1 else a0 in
  let od := if first then s_pair L s p 5 else s_pair L s p 6 in
  let rd := if first then s_pair L s p 6 else s_pair L s p 5 in
  match compute_swap (s_asset_bal L s offer p) (s_asset_bal L s ask p) amount (s_pair L s p 10) with
  | Ok (n, sp, _) =>
      match normalise_decimals amount n sp od rd with
      | Ok (o', r', _) => if ms <=? D then negb (o' * (D - ms) <=? r' * bp) else true
      | Err _ => true
      end
  | Err _ => true
  end.
Definition mon_C10 : monitor := fun L s st s' =>
  if negb (hs_ok st) then
    (fail_unchanged st &&
     match hs_op st, hs_extras st with
     | OSwap p _ [(d, k)] (ANative d') amount (Some bp) (Some ms) _, [1] =>
         if (d =? d') && (k =? amount) && mem_addr p (existing_pairs L s)
         then belief_reject_justified L s p (ANative d') amount bp ms else true
     | OSend ta _ p k (HSwap (AToken tb) amount (Some bp) (Some ms) _), [1] =>
         if (ta =? tb) && (k =? amount) && mem_addr p (existing_pairs L s)
         then belief_reject_justified L s p (AToken ta) amount bp ms else true
     | OSwap p _ [(d, k)] (ANative d') amount None (Some ms) _, [1] =>
         if (d =? d') && (k =? amount) && mem_addr p (existing_pairs L s)
         then spread_reject_justified L s p (ANative d') amount ms else true
     | OSend ta _ p k (HSwap (AToken tb) amount None (Some ms) _), [1] =>
         if (ta =? tb) && (k =? amount) && mem_addr p (existing_pairs L s)
         then spread_reject_justified L s p (AToken ta) amount ms else true
     | _, _ => true
     end, false) else
  (let chk (p : addr) (offer : asset) (bp ms : option N) :=
     match hs_extras st with
     | [a; ret; spread; _] =>
         let first := asset_eqb offer (s_pair_asset L s p 0) in
         let od := if first then s_pair L s p 5 else s_pair L s p 6 in
         let rd := if first then s_pair L s p 6 else s_pair L s p 5 in
         guard_sound bp ms a ret spread od rd
     | _ => true
     end in
   match hs_op st with
   | OSwap p _ _ offer _ bp ms _ => chk p offer bp ms
   | OSend _ _ p _ (HSwap offer _ bp ms _) => if s_pair L s p 0 =? 1 then chk p offer bp ms else true
   | _ => true
   end, false).

(* ---- running a history ---- *)
Fixpoint nlist_eqb_w (l1 l2 : list N) : bool :=
  match l1, l2 with
  | [], [] => true
  | a :: l1, b :: l2 => (a =? b) && nlist_eqb_w l1 l2
  | _, _ => false
  end.
Definition query_agrees (w : world) (qa : query * option (list N)) : bool :=
  match eval_query w (fst qa), snd qa with
  | Ok a, Some b => nlist_eqb_w a b
  | Err _, None => true
  | _, _ => false
  end.

(* result: (model agrees on every step, property held on every step,
            every failing step is inside a known class, number of successful transactions) *)
Fixpoint run_hist (mon : monitor) (L : layout) (w : world) (s : list N) (steps : list hstep)
         (agree allp allpk : bool) (nok : N) : bool * bool * bool * N :=
  match steps with
  | [] => (agree, allp, allpk, nok)
  | st :: rest =>
      let r := exec w (hs_op st) in
      let w' := match r with Ok w' => w' | Err _ => w end in
      let s' := apply_delta s 0 (hs_delta st) in
      let a := Bool.eqb (is_ok r) (hs_ok st) && nlist_eqb_w (observe L w') s' &&
               forallb (query_agrees w) (hs_queries st) in
      let '(p, k) := mon L s st s' in
      run_hist mon L w' s' rest (agree && a) (allp && p) (allpk && (p || k))
               (if hs_ok st then nok + 1 else nok)
  end.

Definition world0 (L : layout) (ubal fbal : N) (tdecs : list N) : world :=
  init_world L ubal fbal (fun t => nth (N.to_nat (t - 2)) tdecs 6).

Definition hist_result (mon : monitor) (L : layout) (ubal fbal : N) (tdecs : list N)
           (init_snap : list N) (steps : list hstep) : bool * bool * bool * N :=
  let w0 := world0 L ubal fbal tdecs in
  run_hist mon L w0 init_snap steps (nlist_eqb_w (observe L w0) init_snap) true true 0.

(* per-step trace for replay files: (step index, model ok?, implementation ok?, snapshots agree?, monitor) *)
Fixpoint hist_trace (mon : monitor) (L : layout) (w : world) (s : list N) (steps : list hstep) (i : N)
  : list (N * bool * bool * bool * bool) :=
  match steps with
  | [] => []
  | st :: rest =>
      let r := exec w (hs_op st) in
      let w' := match r with Ok w' => w' | Err _ => w end in
      let s' := apply_delta s 0 (hs_delta st) in
      (i, is_ok r, hs_ok st, nlist_eqb_w (observe L w') s' && forallb (query_agrees w) (hs_queries st), fst (mon L s st s'))
        :: hist_trace mon L w' s' rest (i + 1)
  end.
