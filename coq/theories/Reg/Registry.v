(* Model of contracts/halo-factory/src/state.rs: pair_key, the PAIRS map (a
   cw-storage-plus Map<&[u8], _>, iterated in lexicographic order of the raw key
   bytes), calc_range_start and read_pairs.  Asset identifiers are the bytes of
   AssetInfoRaw::as_bytes; the kind tag is not part of the key, as in the code. *)
From HT Require Import Base.Prelude.

Definition bytes := list N.

Fixpoint bytes_cmp (a b : bytes) : comparison :=
  match a, b with
  | [], [] => Eq
  | [], _ :: _ => Lt
  | _ :: _, [] => Gt
  | x :: a, y :: b => match x ?= y with Eq => bytes_cmp a b | c => c end
  end.
Definition bytes_ltb (a b : bytes) : bool := match bytes_cmp a b with Lt => true | _ => false end.
Definition bytes_leb (a b : bytes) : bool := match bytes_cmp a b with Gt => false | _ => true end.
Definition bytes_eqb (a b : bytes) : bool := match bytes_cmp a b with Eq => true | _ => false end.

(* pair_key: stable sort of the two identifiers by bytes, then concatenation *)
Definition pair_key (a b : bytes) : bytes := if bytes_leb a b then a ++ b else b ++ a.

(* the store: entries sorted strictly by key *)
Section Store.
  Context {V : Type}.
  Definition store := list (bytes * V).

  Fixpoint store_insert (k : bytes) (v : V) (st : store) : store :=       (* Map::save *)
    match st with
    | [] => [(k, v)]
    | (k', v') :: rest =>
        match bytes_cmp k k' with
        | Lt => (k, v) :: st
        | Eq => (k, v) :: rest
        | Gt => (k', v') :: store_insert k v rest
        end
    end.
  Fixpoint store_get (k : bytes) (st : store) : option V :=               (* Map::may_load *)
    match st with
    | [] => None
    | (k', v') :: rest => if bytes_eqb k k' then Some v' else store_get k rest
    end.
End Store.

(* calc_range_start after the repair: the exclusive bound is the cursor's key itself *)
Definition calc_range_start (cursor : option (bytes * bytes)) : option bytes :=
  match cursor with None => None | Some (a, b) => Some (pair_key a b) end.

Definition MAX_LIMIT : N := 30.
Definition DEFAULT_LIMIT : N := 10.
Definition page_limit (limit : option N) : nat :=
  N.to_nat (N.min (match limit with Some l => l | None => DEFAULT_LIMIT end) MAX_LIMIT).

Definition after_bound {V} (start : option bytes) (e : bytes * V) : bool :=
  match start with None => true | Some s => bytes_ltb s (fst e) end.

(* PAIRS.range(start = Exclusive(raw key), None, Ascending).take(limit) *)
Definition read_pairs {V} (st : @store V) (cursor : option (bytes * bytes)) (limit : option N) : @store V :=
  firstn (page_limit limit) (filter (after_bound (calc_range_start cursor)) st).

(* a client walking the list: next cursor = assets of the last entry returned *)
Fixpoint walk {V} (assets : V -> bytes * bytes) (fuel : nat) (st : @store V)
         (cursor : option (bytes * bytes)) (limit : option N) : list (@store V) :=
  match fuel with
  | O => []
  | S fuel =>
      let page := read_pairs st cursor limit in
      match last (map (fun e => Some (assets (snd e))) page) None with
      | None => []
      | Some c => page :: walk assets fuel st (Some c) limit
      end
  end.

(* KF-key-concat (C16): two different unordered identifier sets with the same key *)
Definition same_set (a b c d : bytes) : bool :=
  (bytes_eqb a c && bytes_eqb b d) || (bytes_eqb a d && bytes_eqb b c).
Definition kf_key_collision (a b c d : bytes) : bool :=
  bytes_eqb (pair_key a b) (pair_key c d) && negb (same_set a b c d).

(* ---- the registry operations of the factory, at storage level ---- *)
Record rasset := RA { ra_native : bool; ra_bytes : bytes }.       (* AssetInfoRaw: kind tag + as_bytes *)
Definition rasset_eqb (a b : rasset) : bool :=
  Bool.eqb (ra_native a) (ra_native b) && bytes_eqb (ra_bytes a) (ra_bytes b).
Definition rkey (a b : rasset) : bytes := pair_key (ra_bytes a) (ra_bytes b).

(* execute_create_pair's registry part: same asset -> Err; key already present -> Err; else save *)
Definition reg_create {V} (st : @store V) (a b : rasset) (v : V) : res (@store V) :=
  if rasset_eqb a b then Err EStd else
  match store_get (rkey a b) st with
  | Some _ => Err EStd
  | None => Ok (store_insert (rkey a b) v st)
  end.
Definition reg_lookup {V} (st : @store V) (a b : rasset) : option V := store_get (rkey a b) st.  (* query_pair *)

Definition reg_step {V} (st : @store V) (o : rasset * rasset * V) : @store V :=
  let '(a, b, v) := o in match reg_create st a b v with Ok st' => st' | Err _ => st end.
Definition reg_run {V} (ops : list (rasset * rasset * V)) : @store V := fold_left reg_step ops [].
