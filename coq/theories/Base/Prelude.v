(* Common imports, arithmetic automation set-up and the result monad.
   Everything in the model is total and computable; a Rust panic or an
   `Err` that fails the transaction is a value of [res]. *)
From Coq Require Export NArith ZArith List Bool Lia.
From Coq Require Export ZifyBool ZifyN.
Export ListNotations.

(* lia / nia understand `/` and `mod` through this hook *)
Ltac Zify.zify_post_hook ::= Z.div_mod_to_equations.

Arguments N.add : simpl never.
Arguments N.sub : simpl never.
Arguments N.mul : simpl never.
Arguments N.div : simpl never.
Arguments N.modulo : simpl never.
Arguments N.pow : simpl never.
Arguments N.eqb : simpl never.
Arguments N.ltb : simpl never.
Arguments N.leb : simpl never.
Arguments N.sqrt : simpl never.

(* Failure kinds.  [Panic] is a Rust panic (assert!, overflow, unwrap);
   the others are the `Err` values the contracts return.  All of them
   fail the transaction; the kinds are kept apart because C10, C14 and
   C15 speak about which check rejected. *)
Inductive err : Set :=
| Panic | EStd | EUnauthorized | EAssetMismatch | EMaxSpread | EMaxSlippage | EZeroAmount.

Inductive res (A : Type) : Type :=
| Ok (a : A)
| Err (e : err).
Arguments Ok {A} a.
Arguments Err {A} e.

Definition bind {A B} (r : res A) (f : A -> res B) : res B :=
  match r with Ok a => f a | Err e => Err e end.

Notation "'let*' x ':=' e 'in' f" := (bind e (fun x => f))
  (at level 200, x pattern, e at level 100, f at level 200, right associativity).

Definition is_ok {A} (r : res A) : bool := match r with Ok _ => true | Err _ => false end.

Definition err_eqb (a b : err) : bool :=
  match a, b with
  | Panic, Panic | EStd, EStd | EUnauthorized, EUnauthorized
  | EAssetMismatch, EAssetMismatch | EMaxSpread, EMaxSpread
  | EMaxSlippage, EMaxSlippage | EZeroAmount, EZeroAmount => true
  | _, _ => false
  end.

Lemma bind_ok {A B} (r : res A) (f : A -> res B) b :
  bind r f = Ok b -> exists a, r = Ok a /\ f a = Ok b.
Proof. destruct r as [a|e]; cbn; intros H; [eauto | discriminate]. Qed.

(* Invert a chain of binds ending in [Ok]. *)
Ltac inv_bind H :=
  let a := fresh "v" in
  let H1 := fresh "E" in
  apply bind_ok in H; destruct H as (a & H1 & H).

Open Scope N_scope.

(* Width constants.  Kept as definitions with explicit equations so that
   proofs can choose when to expose the numerals. *)
Definition D    : N := 1000000000000000000.          (* 10^18 *)
Definition W64  : N := 2 ^ 64.
Definition W128 : N := 2 ^ 128.
Definition W256 : N := 2 ^ 256.

Lemma D_eq : D = 10 ^ 18. Proof. reflexivity. Qed.
Lemma D_pos : 0 < D. Proof. reflexivity. Qed.
Lemma W128_pos : 0 < W128. Proof. reflexivity. Qed.
Lemma W256_pos : 0 < W256. Proof. reflexivity. Qed.
Lemma W128_sq : W128 * W128 = W256. Proof. reflexivity. Qed.
Lemma D_lt_W64 : D < W64. Proof. reflexivity. Qed.
Lemma W64_sq : W64 * W64 = W128. Proof. reflexivity. Qed.
