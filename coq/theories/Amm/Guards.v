(* Model of contracts/halo-pair/src/assert.rs, Asset::assert_sent_native_token_balance
   (packages/haloswap/src/asset.rs) and halo-router's assert_operations. *)
From HT Require Import Base.Prelude Num.Arith Amm.Formulas.

(* identifiers (denoms, addresses) are byte strings *)
Definition ident := list N.
Fixpoint ident_eqb (a b : ident) : bool :=
  match a, b with
  | [], [] => true
  | x :: a, y :: b => (x =? y) && ident_eqb a b
  | _, _ => false
  end.

Inductive asset_info : Type := Native (denom : ident) | Token (addr : ident).
Definition asset_info_eqb (a b : asset_info) : bool :=       (* AssetInfo::equal *)
  match a, b with
  | Native d, Native d' => ident_eqb d d'
  | Token t, Token t' => ident_eqb t t'
  | _, _ => false
  end.
Definition is_native (a : asset_info) : bool := match a with Native _ => true | Token _ => false end.
Definition asset_name (a : asset_info) : ident :=            (* Display for AssetInfo *)
  match a with Native d => d | Token t => t end.

(* ---- assert_max_spread ---- *)
Definition normalise_decimals (offer ret spread od rd : N) : res (N * N * N) :=
  if rd <? od then
    let* k := u64_pow10 (od - rd) in
    let* r' := u128_checked_mul ret k in
    let* s' := u128_checked_mul spread k in
    Ok (offer, r', s')
  else if od <? rd then
    let* k := u64_pow10 (rd - od) in
    let* o' := u128_checked_mul offer k in
    Ok (o', ret, spread)
  else Ok (offer, ret, spread).

Definition assert_max_spread (belief_price max_spread : option N)
           (offer ret spread od rd : N) : res unit :=
  let* ors := normalise_decimals offer ret spread od rd in
  let '(o, r, s) := ors in
  match max_spread, belief_price with
  | Some ms, Some bp =>
      let* e := uint_div_dec o bp in                         (* offer_amount / belief_price *)
      if r <? e then
        let* ratio := dec_from_ratio (e - r) e in
        if ms <? ratio then Err EMaxSpread else Ok tt
      else Ok tt
  | Some ms, None =>
      let* tot := uint_add r s in
      let* ratio := dec_from_ratio s tot in
      if ms <? ratio then Err EMaxSpread else Ok tt
  | None, _ => Ok tt
  end.

(* ---- assert_slippage_tolerance ---- *)
Definition assert_slippage_tolerance (tol : option N) (d0 d1 p0 p1 : N) : res unit :=
  match tol with
  | None => Ok tt
  | Some t =>
      if D <? t then Err EStd else
      let* om := dec_sub dec_one t in
      let* pd0 := calc_price_drop d0 d1 om in
      let* st0 := calc_slippage_tolerance p0 p1 in
      if st0 <? pd0 then Err EMaxSlippage else
      let* pd1 := calc_price_drop d1 d0 om in
      let* st1 := calc_slippage_tolerance p1 p0 in
      if st1 <? pd1 then Err EMaxSlippage else Ok tt
  end.

(* ---- Asset::assert_sent_native_token_balance ---- *)
Definition coin := (ident * N)%type.
Fixpoint find_coin (denom : ident) (funds : list coin) : option N :=
  match funds with
  | [] => None
  | (d, amt) :: rest => if ident_eqb d denom then Some amt else find_coin denom rest
  end.
Definition assert_sent_native (info : asset_info) (amount : N) (funds : list coin) : res unit :=
  match info with
  | Native denom =>
      match find_coin denom funds with
      | Some c => if amount =? c then Ok tt else Err EStd
      | None => if amount =? 0 then Ok tt else Err EStd
      end
  | Token _ => Ok tt
  end.

(* ---- halo-router assert_operations ---- *)
Definition swap_op := (asset_info * asset_info)%type.          (* (offer, ask) *)
Fixpoint set_remove (k : ident) (m : list ident) : list ident :=
  match m with
  | [] => []
  | x :: m => if ident_eqb x k then set_remove k m else x :: set_remove k m
  end.
Definition set_insert (k : ident) (m : list ident) : list ident := k :: set_remove k m.
Definition ask_map (ops : list swap_op) : list ident :=
  fold_left (fun m (op : swap_op) => set_insert (asset_name (snd op)) (set_remove (asset_name (fst op)) m))
            ops [].
Definition assert_operations (ops : list swap_op) : res unit :=
  if N.of_nat (length (ask_map ops)) =? 1 then Ok tt else Err EStd.
