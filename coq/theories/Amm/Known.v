(* Decidable classes of inputs on which the unchanged code is known to violate a
   property (KNOWN_FINDINGS.txt).  The same predicates are the hypotheses of
   the theorems and the filter of the run-time check, so a violation outside
   a class is still reported. *)
From HT Require Import Base.Prelude Num.Arith Amm.Formulas.

(* KF-ceil-window (C01, C03): the gross output floor(ceil(q*10^18)/10^18),
   q = y*a/(x+a), exceeds q (q lies within 10^-18 below an integer) and the
   commission on it floors to zero, so the trader is paid more than q. *)
Definition kf_gross (x y a : N) : N := (y * D - x * y * D / (x + a)) / D.
Definition kf_c01 (x y a c : N) : bool :=
  let g := kf_gross x y a in (y * a <? g * (x + a)) && (g * c / D =? 0).
