(* Model of packages/haloswap/src/formulas.rs, statement by statement. *)
From HT Require Import Base.Prelude Num.Arith.

(* compute_swap(offer_pool x, ask_pool y, offer_amount a, commission_rate c)
   -> (return, spread, commission) *)
Definition compute_swap (x y a c : N) : res (N * N * N) :=
  let* cp := uint_mul x y in                          (* offer_pool * ask_pool *)
  let* yd := dec_from_uint256 y in                    (* Decimal256::from_uint256(ask_pool) *)
  let* xa := uint_add x a in                          (* offer_pool + offer_amount *)
  let* f := dec_from_ratio cp xa in                   (* from_ratio(cp, offer_pool + offer_amount) *)
  let* diff := dec_sub yd f in
  let* gross := uint_mul_dec 1 diff in                (* (..) * Uint256::one() *)
  let* ya := uint_mul y a in                          (* ask_pool * offer_amount *)
  let* r := dec_from_ratio ya x in
  let* ideal := uint_mul_dec 1 r in
  let* spread := uint_sub ideal gross in
  let* commission := uint_mul_dec gross c in          (* return_amount * commission_rate *)
  let* ret := uint_sub gross commission in
  let* ret128 := uint_to_u128 ret in
  let* spread128 := uint_to_u128 spread in
  let* commission128 := uint_to_u128 commission in
  Ok (ret128, spread128, commission128).

(* compute_offer_amount(offer_pool x, ask_pool y, ask_amount k, commission_rate c)
   -> (offer, spread, commission) *)
Definition compute_offer_amount (x y k c : N) : res (N * N * N) :=
  let* cp := uint_mul x y in
  let* om := dec_sub dec_one c in                     (* Decimal256::one() - commission_rate *)
  let* inv := dec_div dec_one om in                   (* Decimal256::one() / one_minus_commission *)
  let* t := uint_mul_dec k inv in                     (* ask_amount * inv_one_minus_commission *)
  let* den := uint_sub y t in
  let* q := uint_multiply_ratio 1 cp den in           (* Uint256::one().multiply_ratio(cp, ..) *)
  let* o := uint_sub q x in
  let* before_comm := uint_mul_dec k inv in
  let* rate := dec_from_ratio y x in
  let* before_spread := uint_mul_dec o rate in
  let* spread := (if before_comm <? before_spread
                  then uint_sub before_spread before_comm else Ok 0) in
  let* commission := uint_mul_dec before_comm c in
  let* o128 := uint_to_u128 o in
  let* s128 := uint_to_u128 spread in
  let* c128 := uint_to_u128 commission in
  Ok (o128, s128, c128).

(* calculate_lp_token_amount_to_user; [wl] = sender is in the whitelist *)
Definition lp_share (wl : bool) (min0 min1 S d0 d1 r0 r1 : N) : res N :=
  if S =? 0 then
    if negb wl then Err EStd else
    if (d0 <? min0) || (d1 <? min1) then Err EStd else
    let* p := u128_mul_panic d0 d1 in Ok (N.sqrt p)
  else
    let* s0 := u128_multiply_ratio d0 S r0 in
    let* s1 := u128_multiply_ratio d1 S r1 in
    Ok (N.min s0 s1).

(* calc_price_drop / calc_slippage_tolerance *)
Definition calc_price_drop (od ad one_minus_t : N) : res N :=
  let* r := dec_from_ratio od ad in dec_mul r one_minus_t.
Definition calc_slippage_tolerance (op ap : N) : res N := dec_from_ratio op ap.

(* withdraw_liquidity's arithmetic: share_ratio and the two refunds *)
Definition withdraw_amounts (r0 r1 a S : N) : res (N * N) :=
  let* rho := cwdec_from_ratio a S in
  let* x0 := u128_mul_dec r0 rho in
  let* x1 := u128_mul_dec r1 rho in
  Ok (x0, x1).
