"""Case generators for the storage-level registry family (pair_key, PAIRS, read_pairs)."""
import itertools
import fw
from fw import Case, hexs, unhex


class Universe:
    """asset descriptors (kind, id bytes) with their as_bytes fetched from the real code."""

    def __init__(self, assets):
        self.assets = list(dict.fromkeys(assets))
        outs = fw.run_harness(["reg_bytes %s %s" % (k, hexs(i)) for (k, i) in self.assets])
        self.bytes = {a: unhex(o.split()[1]) for a, o in zip(self.assets, outs)}

    def tok(self, a):
        return "%s %s" % (a[0], hexs(a[1]))

    def b(self, a):
        return self.bytes[a]


def denoms(rng, n, tricky=True):
    alpha = [b"a", b"b", b"u"]
    tails = [b"\x00", b"\x01", b"\x7f", b"\x00\x00", b"\x00a", b"\x01\x00", b"\x02"]
    out = set()
    base = [b"aaa", b"bbb", b"uaura", b"uusd", b"abc", b"abcd", b"abca", b"bcd", b"a", b"ab", b"b", b"ibc/27394FB092D2ECCD",
            # denoms are case-sensitive; upper-case letters sort before lower-case ones
            b"ibc/27394FC0", b"ibc/F082B65C", b"ibc/f082b65c", b"ibc/27394fb092d2eccd", b"IBC/AB", b"Uaura", b"UAURA", b"uAura", b"A", b"Ab", b"AB", b"B",
            # the longest denoms a chain accepts (128 bytes) and one byte less
            b"factory/aura1" + b"v" * 115, b"factory/aura1" + b"v" * 114, b"f" + b"0" * 127]
    for d in base:
        out.add(d)
    while len(out) < n:
        d = b"".join(rng.choice(alpha) for _ in range(rng.randint(1, 5)))
        if tricky and rng.random() < 0.4:
            d += rng.choice(tails)
        out.add(d)
    return [("n", d) for d in sorted(out)]


def tokens(n):
    return [("t", ("token%04d" % i).encode()) for i in range(n)]


def entries_tokens(u, entries):
    return " ".join("%s %s" % (u.tok(a), u.tok(b)) for (a, b) in entries)


def entries_coq(u, entries):
    return [(u.b(a), u.b(b)) for (a, b) in entries]


def opt(v):
    return None if v is None else ("some", v)


def walk_cases(rng, tier):
    n = {"quick": 1, "thorough": 6}[tier]
    cases = []
    assets = denoms(rng, 40) + tokens(12)
    u = Universe(assets)
    # corpus: the pre-repair witness (keys k and k++[0]) and its relatives
    A, B, B0, B1 = ("n", b"aaa"), ("n", b"bbb"), ("n", b"bbb\x00"), ("n", b"bbb\x01")
    u2 = Universe([A, B, B0, B1, ("n", b"bbb\x00\x00"), ("n", b"bbb\x02")])
    for es in ([(A, B), (A, B0)], [(A, B), (A, B1)], [(A, B), (A, B0), (A, B1), (A, ("n", b"bbb\x00\x00")), (A, ("n", b"bbb\x02"))]):
        for L in (1, 2, None):
            cases.append(Case("reg_walk", [opt(L), entries_coq(u2, es)],
                              [("reg_walk %s %d %s" % ("-" if L is None else L, len(es), entries_tokens(u2, es)), "nl")], "corpus"))
    # corpus: pairs whose two identifiers are prefix-related (the sorted concatenation then differs from the smaller of the two
    # concatenations), walked with page size 1 and 2 so that every such pair serves as a cursor
    P = lambda x: ("n", x)
    u3 = Universe([P(b"a"), P(b"ab"), P(b"b"), P(b"ba"), P(b"aba"), P(b"aa"), P(b"aab"), P(b"abc"), P(b"abcd"), P(b"bab"), P(b"c")])
    es3 = [(P(b"b"), P(b"ba")), (P(b"a"), P(b"ab")), (P(b"ab"), P(b"aba")), (P(b"aa"), P(b"aab")), (P(b"abc"), P(b"abcd")),
           (P(b"ba"), P(b"bab")), (P(b"a"), P(b"c")), (P(b"b"), P(b"c")), (P(b"ba"), P(b"c")), (P(b"ab"), P(b"c")), (P(b"aab"), P(b"b"))]
    for L in (1, 2, 3, None):
        for cmd in ("reg_walk", "reg_walk_sw"):
            cases.append(Case("reg_walk", [opt(L), entries_coq(u3, es3)],
                              [("%s %s %d %s" % (cmd, "-" if L is None else L, len(es3), entries_tokens(u3, es3)), "nl")], "corpus",
                              "prefix-related identifiers"))
    sizes = [0, 1, 2, 9, 10, 11, 12, 29, 30, 31, 40] if tier == "quick" else list(range(0, 41))
    limits = [None, 1, 2, 3, 9, 10, 11, 29, 30, 31, 40, 0] if tier == "quick" else [None] + list(range(0, 41))
    for sz in sizes:
        for rep in range(n):
            pool = u.assets
            es = []
            for _ in range(sz):
                a, b = rng.sample(pool, 2)
                es.append((a, b))
            for L in (limits if tier == "thorough" and rep == 0 else rng.sample(limits, 4) + ([31, 40] if sz > 30 else [])):
                if L == 0:
                    continue   # page size 0 never advances: not a walk (covered by reg_page)
                cases.append(Case("reg_walk", [opt(L), entries_coq(u, es)],
                                  [("reg_walk %s %d %s" % ("-" if L is None else L, len(es), entries_tokens(u, es)), "nl")],
                                  "directed-grid"))
                if sz >= 2 and (L in (None, 1, 2) or rng.random() < 0.3):
                    # the same walk by a client that hands the last pair back with its assets in the other order
                    cases.append(Case("reg_walk", [opt(L), entries_coq(u, es)],
                                      [("reg_walk_sw %s %d %s" % ("-" if L is None else L, len(es), entries_tokens(u, es)), "nl")],
                                      "directed-grid", "cursor spelled with its two assets swapped"))
            # single pages with every cursor (both orders) for a few limits
            for ci in ([None] + list(range(len(es)))) if sz <= 12 or tier == "thorough" else [None, 0, sz // 2, sz - 1]:
                for L in rng.sample(limits, 2):
                    sw = rng.random() < 0.5
                    cases.append(Case("reg_page", [opt(L), opt(ci), sw, entries_coq(u, es)],
                                      [("reg_page %s %s %d %d %s" % ("-" if L is None else L, "-" if ci is None else ci,
                                                                      1 if sw else 0, len(es), entries_tokens(u, es)), "nl")],
                                      "directed-grid"))
    return cases


def key_cases(rng, tier):
    cases = []
    # small alphabet, exhaustive over pairs of pairs in thorough, sampled in quick
    strs = [bytes(s) for k in range(1, 4) for s in itertools.product(b"ab", repeat=k)]
    assets = [("n", s) for s in strs] + [("n", b"abc"), ("n", b"abcd"), ("n", b"abca"), ("n", b"bcd"),
                                         ("n", b"uaura"), ("n", b"uusd")] + tokens(4)
    u = Universe(assets)
    pairs = [(a, b) for i, a in enumerate(u.assets) for b in u.assets[i:]]
    quads = [(p, q) for i, p in enumerate(pairs) for q in pairs[i:]]
    if tier == "quick":
        quads = rng.sample(quads, 500)
    elif len(quads) > 12000:
        quads = rng.sample(quads, 12000)
    w = (("n", b"abc"), ("n", b"abcd")), (("n", b"abca"), ("n", b"bcd"))
    quads = [w] + quads
    for ((a, b), (c, d)) in quads:
        cases.append(Case("reg_keyeq", [u.b(a), u.b(b), u.b(c), u.b(d)],
                          [("reg_key %s %s" % (u.tok(a), u.tok(b)), "s"), ("reg_key %s %s" % (u.tok(c), u.tok(d)), "s"),
                           ("reg_key %s %s" % (u.tok(b), u.tok(a)), "s")],
                          "corpus" if ((a, b), (c, d)) == w else "directed-grid"))
    # lookups in registries (prefix-free universe => no known-class hits expected, plus the colliding one)
    pf = Universe([("n", b"uaura"), ("n", b"uusd"), ("n", b"uatom"), ("n", b"ibc/AAAA"), ("n", b"ibc/BBBB")] + tokens(6))
    for _ in range(150 if tier == "quick" else 1500):
        es = [tuple(rng.sample(pf.assets, 2)) for _ in range(rng.randint(0, 8))]
        q = tuple(rng.sample(pf.assets, 2)) if rng.random() < 0.5 or not es else rng.choice(es)
        if rng.random() < 0.5:
            q = (q[1], q[0])
        cases.append(Case("reg_lookup", [pf.b(q[0]), pf.b(q[1]), entries_coq(pf, es)],
                          [("reg_lookup %s %s %d %s" % (pf.tok(q[0]), pf.tok(q[1]), len(es), entries_tokens(pf, es)), "n")],
                          "random"))
    cu = Universe([("n", b"abc"), ("n", b"abcd"), ("n", b"abca"), ("n", b"bcd")])
    es = [(("n", b"abc"), ("n", b"abcd"))]
    q = (("n", b"abca"), ("n", b"bcd"))
    cases.append(Case("reg_lookup", [cu.b(q[0]), cu.b(q[1]), entries_coq(cu, es)],
                      [("reg_lookup %s %s %d %s" % (cu.tok(q[0]), cu.tok(q[1]), len(es), entries_tokens(cu, es)), "n")], "corpus"))
    return cases


def collision_witness():
    cu = Universe([("n", b"abc"), ("n", b"abcd"), ("n", b"abca"), ("n", b"bcd")])
    es = [(("n", b"abc"), ("n", b"abcd"))]
    q = (("n", b"abca"), ("n", b"bcd"))
    return Case("reg_lookup", [cu.b(q[0]), cu.b(q[1]), entries_coq(cu, es)],
                [("reg_lookup %s %s %d %s" % (cu.tok(q[0]), cu.tok(q[1]), len(es), entries_tokens(cu, es)), "n")], "corpus")
