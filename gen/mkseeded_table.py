#!/usr/bin/env python3
"""Regenerate the seeded-changes table of DESIGN.md (between the SEEDED-TABLE markers) from seeded/*/meta.json and the
last regression log."""
import glob, json, os, re
ROOT = os.path.dirname(os.path.dirname(os.path.abspath(__file__)))
reg = {}
lp = os.path.join(ROOT, "build", "seeded_regress.log")
if os.path.exists(lp):
    for l in open(lp):
        m = re.match(r"(\S+): (DETECTED \(.*?\)|MISSED|FLAKY.*)", l)
        if m:
            reg[m.group(1)] = m.group(2)
rows = []
for d in sorted(glob.glob(os.path.join(ROOT, "seeded", "*", ""))):
    m = json.load(open(d + "meta.json"))
    idn = os.path.basename(d.rstrip("/"))
    summ = " ".join(str(m.get("summary") or m.get("origin") or "").split())[:260].replace("|", "/")
    needs = " ".join(str(m.get("needs") or "").split())[:220].replace("|", "/")
    by = " ".join(str(m.get("caught_by") or "").split())[:300].replace("|", "/")
    rows.append("| %s | %s | %s | %s | %s |" % (idn, summ, needs, by, reg.get(idn, "not re-run")))
n = len(rows)
det = sum(1 for v in reg.values() if v.startswith("DETECTED"))
conc = sum(1 for v in reg.values() if "concrete" in v)
head = ("%d confirmed changes (3 are the reverses of the fix: commits, %d come from independent sub-agents in twenty-five batches; the "
        "third and later batches were asked for changes that are hard to notice and told which earlier ideas were already known).  Each "
        "compiles and leaves the unedited suite at 101 passed (gen/confirm_mut.sh in a scratch worktree: patch only / patch+demo "
        "/ demo only).  Last full regression (gen/seeded_regress.sh, quick tier, default seed): %d of %d detected by the check of "
        "their own property, %d of them with a concrete failing input as the replay.\n\n"
        "Changes that were MISSED when first tried, and what was strengthened: C14-agent1 (auth matrix attempts were not "
        "otherwise valid -> fresh pair, caller whitelists itself, owner last); C08-agent2 (quick tier sampled away the (0,0) "
        "operand pair -> zero-operand pairs permanent); C12-agent2 (no check asked the router for a reverse simulation -> pair and "
        "router queries are put to the contracts inside histories and compared with the model and with the driver's own "
        "hop-by-hop composition); C05-agent3 (no generator listed one pair asset twice -> provision listing matrix); C14-agent4 (UpdateConfig was only ever sent with the owner field alone -> the "
        "driver sends the message's other shapes too, the caller-role matrix has a second hand-over); C02-agent4 (no bank denom "
        "was ever spelled like a cw20 address -> look-alike denom in the swap matrix); C08-agent4 was caught only by some seeds in "
        "the quick tier (limb-pattern operands were sampled) -> those operand pairs are now permanent; the fifth, sixth and seventh batches (7, 5 and 5 of 10 missed at first, several more reported without a concrete input) exposed what the driver could not yet SAY rather than what it "
        "did not try: look-alike strings across asset kinds, first provisions on behalf of others, route participants as recipients, non-normalised address spellings, the query entry "
        "point above read_pairs, native decimals beyond 18, code ids and migration, unprovisioned funded pairs, hooks relayed by the wrong token, signs inside numerals, pools emptied to the locked unit and re-seeded, LP handed over between users, cw20s that are not laid out like cw20-base, cursors handed back in the other asset order, callers without the tokens they deposit, routes funded with two coins, 128-byte denoms, minimums above 2^127, actors that are themselves contracts (see each row); "
        "C09-agent3 and "
        "C16-agent3 were anticipated from their descriptions before they could be run (no case-variant denoms anywhere; the "
        "factory lookup was only observed in the pair's own asset order) and the checks were extended first (function-level family "
        "over look-alike denoms; reverse-order lookup in the snapshot).  Reported at first only as no-failing-input-found and now "
        "with a concrete input: C10-agent1 (mon_C10), C11-agent1 / C11-agent3 (router generator: richer recipient, round trips, "
        "no-loss minimums), C20-agent3 (LP parked at the pair by a plain transfer), C13-agent3 (routes whose final asset is also spent by an earlier hop are now driven "
        "first, while the router is certainly empty, with no minimum; stray router balances only late and in half of the histories).\n\n"
        "Five confirmed changes are NOT detected and are recorded as such: C18-agent25 (needs a stand-alone pair with a rate of 2^64*10^-18 or more: the factory refuses rates above 1), C20-agent25 (needs an LP supply above 3.4*10^30, which the reserve-product bound makes unreachable through the entry points), C17-agent22 (it acts only when the owner's AddNativeTokenDecimals call carries a coin of another denom: factory messages carry no funds in the op language), C19-agent11 (it acts only where two different asset sets share one "
        "registry key, i.e. inside the recorded finding KF-key-concat, which the world model cannot express and the storage-level families "
        "do not reach through CreatePair) and C05-agent19 (it acts only on a pair that an ordinary account instantiated directly, outside "
        "the factory, and then provisions itself: the op language creates pairs through the factory only).\n\n"
        "Batches 14-25 (session 4; 4-8 of 10 missed at first in each) again exposed what the driver could not yet SAY: the build profile of "
        "the deployed wasm (debug assertions off), time passing between operations (block height), the wire spelling of hook payloads, JSON "
        "escapes, a chain-level admin, a counterfeit share token whose minter is the pair, callers whose names the address codec refuses, "
        "whole Receive envelopes as payloads, rates and limits with a given number of fractional digits, thirty-plus registered denoms, "
        "whitelists of hundreds of addresses, pools at the reserve-product bound and offers as large as the reserve, dust top-ups and dust "
        "withdrawals, five-hop routes, same-direction revisits of a pair, long look-alike identifiers, structured limbs for hand-written "
        "division and rendering; and two defects of my own generators (a block of the guard histories that reused a stale quote, "
        "directed matrices whose pools depended on the seed).\n\n"
        "| seeded id | change | needs | caught by | last regression |\n|---|---|---|---|---|\n" % (n, n - 3, det, len(reg), conc))
p = os.path.join(ROOT, "DESIGN.md")
s = open(p).read()
a = s.index("<!-- SEEDED-TABLE-BEGIN -->") + len("<!-- SEEDED-TABLE-BEGIN -->")
b = s.index("<!-- SEEDED-TABLE-END -->")
s = s[:a] + "\n" + head + "\n".join(rows) + "\n" + s[b:]
open(p, "w").write(s)
print("table with", n, "rows;", det, "detected")
