"""Case generators for haloswap::formulas::compute_swap / compute_offer_amount."""
from fw import Case
from numgen import D, W128, W256, loguniform, rates, clamp128, grid128

REPO_VECTORS = [
    (395451850234, 317, 1, 3 * 10 ** 16),
    (W128 - 1, 1, 1, 3 * 10 ** 16),
    (1, W128 - 1, 1, 3 * 10 ** 16),
    (340282366920938463463374607431, 340282366920938463463374607431, 1, 3 * 10 ** 16),
    (340282366920938463463374607431, 340282366920938463463374607431, 340282366920938463463374607431, 3 * 10 ** 16),
    (30000000000, 20000000000, 1500000000, 3 * 10 ** 15),
]
WITNESSES = [
    (2 * 10 ** 18, 2 * 10 ** 18, 1, 3 * 10 ** 15),       # KF-ceil-window: product falls
    (1, 1, 2 * 10 ** 18, 3 * 10 ** 15),                  # KF-ceil-window: reserve emptied
    (2 * 10 ** 18, 2 * 10 ** 18 - 1, 1, 3 * 10 ** 15),   # gross > ideal: spread subtraction aborts
]


def swap_case(x, y, a, c, stream):
    return Case("compute_swap", [x, y, a, c],
                [("compute_swap %d %d %d %d" % (x, y, a, c), "n3")], stream)


def mono_case(x, y, a, a2, c, stream):
    return Case("swap_mono", [x, y, a, a2, c],
                [("compute_swap %d %d %d %d" % (x, y, a, c), "n3"),
                 ("compute_swap %d %d %d %d" % (x, y, a2, c), "n3")], stream)


def window_inputs(rng, n):
    """(x, y, a) with q = y*a/(x+a) on either side of the 10^-18 window below an integer."""
    out = []
    for _ in range(n):
        a = loguniform(rng, 1, 40)
        if a == 0:
            a = 1
        # x + a > a * D so that y steps of 1 move q by less than 10^-18
        x = rng.randrange(a * D, min(W128 - 1, a * D * rng.choice([2, 10, 1000, 10 ** 6]) + 2))
        if x >= W128:
            continue
        k = rng.choice([1, 1, 2, 3, 10, loguniform(rng, 1, 30) + 1])
        y0 = k * (x + a) // a
        for dy in (-2, -1, 0, 1):
            y = y0 + dy
            if 0 < y < W128:
                out.append((x, y, a))
    return out


def overflow_inputs(rng, n):
    out = []
    for _ in range(n):
        x = loguniform(rng, 60, 127)
        y0 = W256 // (x * D)
        for dy in (-1, 0, 1):
            y = clamp128(y0 + dy)
            out.append((x, y, loguniform(rng, 0, 100)))
        # a*y*D around 2^256
        y = loguniform(rng, 60, 127)
        a0 = W256 // (y * D)
        for da in (-1, 0, 1):
            a = clamp128(a0 + da)
            xx = W256 // (y * D) // rng.choice([1, 2, 1000])
            out.append((clamp128(max(1, xx)), y, a))
    return out


def small_inputs():
    vals = [0, 1, 2, 3, 10, 999]
    return [(x, y, a) for x in vals for y in vals for a in vals]


def random_inputs(rng, n):
    out = []
    for _ in range(n):
        mode = rng.randrange(4)
        if mode == 0:      # independent magnitudes
            x, y, a = loguniform(rng, 1, 127), loguniform(rng, 1, 127), loguniform(rng, 0, 127)
        elif mode == 1:    # realistic pool: offer a fraction of the reserve
            x, y = loguniform(rng, 20, 100), loguniform(rng, 20, 100)
            a = max(1, x // rng.choice([1, 2, 10, 1000, 10 ** 6]))
        elif mode == 2:    # dust against deep pool
            x, y, a = loguniform(rng, 60, 120), loguniform(rng, 1, 120), loguniform(rng, 0, 20)
        else:              # huge offer
            x, y, a = loguniform(rng, 1, 60), loguniform(rng, 1, 127), loguniform(rng, 60, 127)
        out.append((x, y, a))
    return out


def swap_cases(rng, tier):
    n = {"quick": 1, "thorough": 12}[tier]
    cases = []
    rs = rates(rng, 4)
    for v in REPO_VECTORS + WITNESSES:
        cases.append(swap_case(*v, "corpus"))
    for (x, y, a) in window_inputs(rng, 60 * n):
        for c in (0, 3 * 10 ** 15, rng.choice(rs), D):
            cases.append(swap_case(x, y, a, c, "directed-window"))
    for (x, y, a) in overflow_inputs(rng, 15 * n):
        cases.append(swap_case(x, y, a, rng.choice(rs), "directed-overflow"))
    # the region where ask*offer*10^18 no longer fits 256 bits (the unchanged code aborts there) COMBINED with the residue
    # window of the 18-digit quotient and a commission that floors to nothing: if a change prices such trades at all, it pays
    # one unit too much exactly here (C01-agent19).  x*y = r (mod x+a) with r in [1, (x+a)/10^18) is solved for y.
    import math
    for x in (10 ** 24 + 7, 3 * 10 ** 21 + 1, 2 ** 70 + 1):
        for mult in (20, 7, 3):
            a = x * mult + 3
            m_ = x + a
            if math.gcd(x, m_) != 1:
                continue
            inv = pow(x, -1, m_)
            for r in (1, 2, max(1, m_ // D - 1)):
                y0 = (r * inv) % m_
                lo = (2 ** 256 // D) // a + 1                      # ask*offer*10^18 >= 2^256
                hi = min(2 ** 128 - 1, (2 ** 256 // D - 1) // x, (2 ** 128 - 1) * x // a)   # x*y fits; spread below 2^128
                if lo >= hi:
                    continue
                y = y0 + ((lo - y0) // m_ + 1) * m_
                if y < hi:
                    for c in (0, 1):
                        cases.append(swap_case(x, y, a, c, "directed-overflow"))
    for (x, y, a) in small_inputs():
        cases.append(swap_case(x, y, a, rng.choice([0, 1, 3 * 10 ** 15, D - 1, D]), "directed-small"))
    # a tiny offer pool against a huge ask pool and offer: the spread a*y/x - gross is the one quantity of compute_swap that
    # can need far more than 128 bits (up to ~2^196); powers of two put zeros into whole limbs of it
    for x in (1, 2, 3, 4):
        for ey in (64, 96, 100, 127):
            for ea in (64, 96, 100, 127):
                for da in (0, 1, 2, 3):
                    if 2 ** ea + da < W128:
                        cases.append(swap_case(x, 2 ** ey, 2 ** ea + da, rng.choice([0, 3 * 10 ** 15, D]), "directed-overflow"))
    g = grid128()
    for _ in range(100 * n):
        cases.append(swap_case(rng.choice(g), rng.choice(g), rng.choice(g), rng.choice(rs), "directed-grid"))
    for (x, y, a) in random_inputs(rng, 500 * n):
        cases.append(swap_case(x, y, a, rng.choice(rs), "random"))
    return cases


def mono_cases(rng, tier):
    n = {"quick": 1, "thorough": 12}[tier]
    cases = []
    rs = rates(rng, 4)
    for (x, y, a) in random_inputs(rng, 150 * n) + window_inputs(rng, 20 * n):
        c = rng.choice(rs)
        for a2 in (a + 1, a + rng.randrange(1, 1000), a * 2 + 1, a + loguniform(rng, 0, 100)):
            if a2 < W128:
                cases.append(mono_case(x, y, a, a2, c, "random"))
    return cases


# ---------------- compute_offer_amount ----------------
def rev_case(x, y, k, c, stream):
    return Case("compute_offer_amount", [x, y, k, c],
                [("compute_offer_amount %d %d %d %d" % (x, y, k, c), "n3")], stream)


def reverse_cases(rng, tier):
    n = {"quick": 1, "thorough": 12}[tier]
    cases = [rev_case(30000000000, 20000000000, 949523810, 3 * 10 ** 15, "corpus"),
             rev_case(1, 1, 1, 0, "corpus"), rev_case(0, 5, 1, 0, "corpus"), rev_case(5, 0, 0, 0, "corpus"),
             rev_case(5, 5, 0, D, "corpus"), rev_case(5, 5, 1, D + 1, "corpus"), rev_case(5, 5, 5, 0, "corpus"),
             rev_case(5, 5, 4, 0, "corpus"), rev_case(W128 - 1, W128 - 1, 1, 3 * 10 ** 15, "corpus")]
    rs = rates(rng, 4) + [D - 1, D - 2, D - 10 ** 9, D - 10 ** 17]
    for _ in range(300 * n):
        c = rng.choice(rs)
        x, y = loguniform(rng, 1, 127), loguniform(rng, 1, 127)
        mode = rng.randrange(3)
        if mode == 0:
            k = loguniform(rng, 0, 127)
        elif mode == 1:
            k = max(0, y // rng.choice([2, 3, 10, 1000, 10 ** 6]))
        else:
            # t near y: k ~ y*(1-c)
            k = y * (D - c) // D if c <= D else 0
        for dk in (-1, 0, 1):
            if 0 <= k + dk < W128:
                cases.append(rev_case(x, y, k + dk, c, "directed-boundary" if mode == 2 else "random"))
    return cases


# ---------------- lp_share ----------------
def share_case(wl, min0, min1, T, d0, d1, r0, r1, stream):
    return Case("lp_share", [bool(wl), min0, min1, T, d0, d1, r0, r1],
                [("lp_share %d %d %d %d %d %d %d %d" % (1 if wl else 0, min0, min1, T, d0, d1, r0, r1), "n")], stream)


def share_cases(rng, tier):
    n = {"quick": 1, "thorough": 12}[tier]
    cases = []
    # first provision: whitelist x minimums matrix, sqrt boundaries, u128 overflow of d0*d1
    for wl in (0, 1):
        for (m0, m1, d0, d1) in [(10, 10, 10, 10), (10, 10, 9, 10), (10, 10, 10, 9), (10, 10, 9, 9), (0, 0, 0, 0),
                                 (0, 0, 1, 1), (0, 0, 1, 3), (0, 0, 2, 2), (5, 7, 1000, 4000),
                                 (0, 0, 2 ** 64, 2 ** 64), (0, 0, 2 ** 64 - 1, 2 ** 64), (0, 0, 2 ** 64 - 1, 2 ** 64 + 1),
                                 (0, 0, 2 ** 127, 1), (0, 0, 2 ** 127, 2), (0, 0, W128 - 1, 1)]:
            cases.append(share_case(wl, m0, m1, 0, d0, d1, rng.randrange(5), rng.randrange(5), "directed-matrix"))
    for _ in range(60 * n):
        s = loguniform(rng, 1, 63)
        for (d0, d1) in [(s, s), (s * s, 1), (s, s + 1), (s - 1, s + 1)]:
            cases.append(share_case(1, 0, 0, 0, d0, d1, 0, 0, "directed-sqrt"))
    # later provisions
    for _ in range(300 * n):
        r0, r1, T = loguniform(rng, 1, 120), loguniform(rng, 1, 120), loguniform(rng, 1, 120)
        mode = rng.randrange(3)
        if mode == 0:
            d0, d1 = loguniform(rng, 0, 127), loguniform(rng, 0, 127)
        else:
            k = loguniform(rng, 1, 20) + 1
            d0 = max(1, r0 // k)
            d1 = d0 * r1 // r0 if r0 else 1
            if mode == 2:
                d1 += rng.choice([-1, 1, 2, 1000])
        for (a, b) in [(d0, d1), (d0 + 1, d1), (d0, max(0, d1 - 1))]:
            if a < W128 and 0 <= b < W128:
                cases.append(share_case(rng.randrange(2), 0, 0, T, a, b, r0, r1, "random"))
    for (T, d0, d1, r0, r1) in [(5, 5, 5, 0, 5), (5, 5, 5, 5, 0), (W128 - 1, W128 - 1, W128 - 1, 1, 1),
                                (W128 - 1, 2, 2, 1, 1), (1, 0, 0, 1, 1), (1, 1, 0, 1, 1)]:
        cases.append(share_case(1, 0, 0, T, d0, d1, r0, r1, "directed-boundary"))
    return cases
