#!/bin/bash
# gen/seeded_regress.sh : apply every seeded change in turn, run the check of its property, undo; print one line each.
# Runs from whatever copy of /verif it lives in; with HT_REPO set it patches that snapshot instead of /repo
# (vp run --with-repo -- bash -c 'export HT_REPO=$VP_RUN_REPO; ./setup.sh; ./gen/seeded_regress.sh').
V=$(cd "$(dirname "$0")/.." && pwd)
cd "$V"
for d in seeded/*/; do
  id=$(basename $d); prop=${id%%-*}
  res=$(./gen/try_seeded.sh $V/$d/patch.diff $prop 2>&1 | head -1)
  case "$res" in
    *VIOLATION*no-failing-input-found*) echo "$id: DETECTED (no-failing-input-found)";;
    *VIOLATION*) echo "$id: DETECTED (concrete failing input)";;
    *) echo "$id: MISSED   $res";;
  esac
done
