#!/bin/bash
# gen/seeded_regress.sh : apply every seeded change in turn, run the check of its property, undo; print one line each.
# Runs from whatever copy of /verif it lives in; with HT_REPO set it patches that snapshot instead of /repo
# (vp run --with-repo -- bash -c 'export HT_REPO=$VP_RUN_REPO; ./setup.sh; ./gen/seeded_regress.sh').
# SEEDS="a b ..." runs every change under each seed: a change counts as DETECTED only if every seed detects it
# (a detection that depends on the seed is luck, reported as FLAKY with the seeds that missed).
V=$(cd "$(dirname "$0")/.." && pwd)
cd "$V"
SEEDS=${SEEDS:-20260930}
ONLY=${ONLY:-.}        # ONLY='^C0[1-7]' restricts the run to the matching ids (several runs side by side on snapshots)
for d in seeded/*/; do
  id=$(basename $d); prop=${id%%-*}
  echo "$id" | grep -Eq "$ONLY" || continue
  kinds=""; missed=""
  for sd in $SEEDS; do
    res=$(VERIF_SEED=$sd ./gen/try_seeded.sh $V/$d/patch.diff $prop 2>&1 | head -1)
    case "$res" in
      *VIOLATION*no-failing-input-found*) kinds="$kinds n";;
      *VIOLATION*) kinds="$kinds c";;
      *) missed="$missed $sd";;
    esac
  done
  if [ -n "$missed" ] && [ -z "$kinds" ]; then echo "$id: MISSED   (seeds:$missed)"
  elif [ -n "$missed" ]; then echo "$id: FLAKY    (missed with seeds:$missed)"
  elif [[ "$kinds" == *n* ]]; then echo "$id: DETECTED (no-failing-input-found)"
  else echo "$id: DETECTED (concrete failing input)"; fi
done
