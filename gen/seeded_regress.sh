#!/bin/bash
# gen/seeded_regress.sh : apply every seeded change in turn, run the check of its property, undo; print one line each.
cd /verif
for d in seeded/*/; do
  id=$(basename $d); prop=${id%%-*}
  res=$(./gen/try_seeded.sh /verif/$d/patch.diff $prop 2>&1 | head -1)
  case "$res" in
    *VIOLATION*no-failing-input-found*) echo "$id: DETECTED (no-failing-input-found)";;
    *VIOLATION*) echo "$id: DETECTED (concrete failing input)";;
    *) echo "$id: MISSED   $res";;
  esac
done
