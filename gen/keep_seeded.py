#!/usr/bin/env python3
"""gen/keep_seeded.py <Cxx> <tag> <caught_by text> [report kind]  : file a CONFIRMED change from /tmp/mut/<Cxx>/_out under
seeded/<Cxx>-<tag>/ (patch.diff, demo.diff, meta.json).  Run gen/confirm_mut.sh first; its output is read from
/tmp/mut/<Cxx>.confirm."""
import json, os, shutil, sys
ROOT = os.path.dirname(os.path.dirname(os.path.abspath(__file__)))
pid, tag, caught = sys.argv[1:4]
kind = sys.argv[4] if len(sys.argv) > 4 else "concrete failing input"
src = "/tmp/mut/%s/_out" % pid
am = json.load(open(os.path.join(src, "meta.json")))
conf = " | ".join(l.strip() for l in open("/tmp/mut/%s.confirm" % pid) if l.strip())
dst = os.path.join(ROOT, "seeded", "%s-%s" % (pid, tag))
os.makedirs(dst, exist_ok=True)
for f in ("patch.diff", "demo.diff"):
    shutil.copy(os.path.join(src, f), os.path.join(dst, f))
meta = {"property": pid, "origin": "independent sub-agent given only the property text and its own scratch worktree",
        "summary": am.get("summary"), "needs": am.get("needs"),
        "confirmed_by_main_session": "gen/confirm_mut.sh: " + conf,
        "ran": "git -C /repo apply patch.diff; ./check <ids> (quick); git -C /repo checkout -- .  (gen/try_seeded.sh)",
        "caught_by": caught, "report_kind": kind, "agent_meta": am}
json.dump(meta, open(os.path.join(dst, "meta.json"), "w"), indent=1)
print("kept", dst)
