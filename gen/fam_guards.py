"""Case generators for assert_slippage_tolerance and assert_max_spread.
The small python mirrors below are used ONLY to aim inputs at the guards' decision
boundaries; they are never used as an oracle."""
from fw import Case
from numgen import D, W128, W256, loguniform, rates, clamp128


def opt(v):
    return None if v is None else ("some", v)


def tok(v):
    return "-" if v is None else str(v)


# ---------------- slippage ----------------
def slippage_case(t, d0, d1, p0, p1, stream):
    return Case("slippage", [opt(t), d0, d1, p0, p1],
                [("slippage %s %d %d %d %d" % (tok(t), d0, d1, p0, p1), "unit")], stream)


def _slip_accept(t, d0, d1, p0, p1):
    if t > D or 0 in (d0, d1, p0, p1):
        return None
    om = D - t
    a = (d0 * D // d1) * om // D <= p0 * D // p1
    b = (d1 * D // d0) * om // D <= p1 * D // p0
    return a and b


def slippage_cases(rng, tier):
    n = {"quick": 1, "thorough": 15}[tier]
    cases = []
    ts = [0, 1, D - 1, D, D + 1, 2 * D, 10 ** 16, 5 * 10 ** 16, 5 * 10 ** 17] + rates(rng, 3)
    # corpus / small
    for v in [(10 ** 16, 1000, 2000, 100000, 200000), (10 ** 16, 1000, 2000, 100000, 230000),
              (0, 1, 1, 1, 1), (D, 5, 7, 1, W128 - 1), (10 ** 16, 0, 5, 5, 5), (10 ** 16, 5, 0, 5, 5),
              (10 ** 16, 5, 5, 0, 5), (10 ** 16, 5, 5, 5, 0), (None, 0, 0, 0, 0), (None, 5, 6, 7, 8)]:
        cases.append(slippage_case(*v, "corpus"))
    # one deposit an EXACT multiple q >= 2 of the other, the pool ratio between floor(q(1-t)) and q(1-t), both ways round and at
    # several magnitudes (C15-agent25: a whole-number fast path that truncated q*(1-t) to an integer)
    for q in (2, 3, 5, 10, 100):
        for t in (10 ** 16, 5 * 10 ** 16, 10 ** 15):
            for unit in (100, 10 ** 9, 10 ** 20):
                lo, hi = (q * (D - t)) // D, q * (D - t)          # floor(q(1-t)) and q(1-t) * D
                mid = (lo * D + hi) // 2                            # a pool ratio (times D) strictly between them
                p0, p1 = mid * unit // D, unit
                for (d0, d1, r0, r1) in ((q * unit, unit, p0, p1), (unit, q * unit, p1, p0), (q * unit, unit, q * unit, unit)):
                    if max(d0, d1, r0, r1) < W128 and min(r0, r1) > 0:
                        cases.append(slippage_case(t, d0, d1, r0, r1, "directed-boundary"))
    for it in range(150 * n):
        t = rng.choice(ts)
        mode = rng.randrange(3)
        if it < 12:
            mode = 2        # the first few: boundaries at price ratios beyond 2^128/10^18 (the ratio itself needs > 128 bits
            t = rng.choice([10 ** 16, 5 * 10 ** 16, 5 * 10 ** 17, 1])   # as a fixed-point number), both ways round
        if mode == 0:
            d0, d1, p0, p1 = (loguniform(rng, 1, 127) for _ in range(4))
        else:
            # deposits near the pool ratio
            p0, p1 = loguniform(rng, 10, 110), loguniform(rng, 10, 110)
            if it < 12:
                p1 = loguniform(rng, 20, 40)
                p0 = p1 * loguniform(rng, 70, 85)
            k = loguniform(rng, 1, 16) + 1
            d1 = max(1, p1 // k)
            d0 = max(1, p0 * d1 // p1)
            if mode == 2 and t <= D and _slip_accept(t, d0, d1, p0, p1):
                # the accepted deposits form a band around the pool ratio: binary search its upper or its lower edge,
                # starting from the (accepted) centre
                if rng.random() < 0.5:
                    lo, hi = d0, W128 - 1
                    while lo < hi:
                        mid = (lo + hi + 1) // 2
                        if _slip_accept(t, mid, d1, p0, p1):
                            lo = mid
                        else:
                            hi = mid - 1
                    d0 = lo
                else:
                    lo, hi = 0, d0
                    while lo < hi:
                        mid = (lo + hi) // 2
                        if _slip_accept(t, mid, d1, p0, p1):
                            hi = mid
                        else:
                            lo = mid + 1
                    d0 = max(1, lo - 1)
        for dd in (-1, 0, 1, 2):
            v = d0 + dd
            if 0 <= v < W128:
                cases.append(slippage_case(t, v, d1, p0, p1, "directed-boundary" if mode == 2 else "random"))
                cases.append(slippage_case(t, d1, v, p1, p0, "directed-boundary" if mode == 2 else "random"))
    for _ in range(30 * n):
        cases.append(slippage_case(None, *(loguniform(rng, 0, 127) for _ in range(4)), "random"))
    # deposits EXACTLY in the pool ratio (as integers), against every kind of tolerance including those above 100%
    for _ in range(12 * n):
        a_, b_, k_, j_ = loguniform(rng, 1, 50), loguniform(rng, 1, 50), loguniform(rng, 1, 20), loguniform(rng, 1, 20)
        for t in (D + 1, 2 * D, 19 * D, D, D - 1, 0, 10 ** 16, None):
            cases.append(slippage_case(t, a_ * j_, b_ * j_, a_ * k_, b_ * k_, "directed-grid"))
    return cases


# ---------------- max spread ----------------
def spread_case(bp, ms, offer, ret, spread, od, rd, stream):
    return Case("max_spread", [opt(bp), opt(ms), offer, ret, spread, od, rd],
                [("max_spread %s %s %d %d %d %d %d" % (tok(bp), tok(ms), offer, ret, spread, od, rd), "unit")],
                stream)


def _norm(offer, ret, spread, od, rd):
    if od > rd:
        k = 10 ** (od - rd)
        if k >= 2 ** 64 or ret * k >= W128 or spread * k >= W128:
            return None
        return offer, ret * k, spread * k
    if od < rd:
        k = 10 ** (rd - od)
        if k >= 2 ** 64 or offer * k >= W128:
            return None
        return offer * k, ret, spread
    return offer, ret, spread


def _spread_accept(bp, ms, offer, ret, spread, od, rd):
    nrm = _norm(offer, ret, spread, od, rd)
    if nrm is None or ms is None:
        return None
    o, r, s = nrm
    if bp is not None:
        if bp == 0:
            return None
        e = o * D // bp
        return not (r < e and (e - r) * D // e > ms)
    if r + s == 0:
        return None
    return not (s * D // (r + s) > ms)


def spread_cases(rng, tier):
    n = {"quick": 1, "thorough": 12}[tier]
    cases = []
    corpus = [(D, 10 ** 16, 1000000, 990000, 5000, 6, 6), (D, 10 ** 16, 1000000, 989999, 5000, 6, 6),
              (None, 10 ** 16, 1000000, 989999, 9999, 6, 18), (0, 10 ** 16, 5, 5, 5, 6, 6),
              (None, 10 ** 16, 5, 0, 0, 6, 6), (D, None, 5, 5, 5, 6, 6), (None, None, 5, 5, 5, 0, 18),
              (D, 10 ** 16, W128 - 1, W128 - 1, 0, 18, 0), (D, 10 ** 16, 5, 5, 5, 30, 0), (D, 10 ** 16, 5, 5, 5, 0, 20),
              (D, 10 ** 16, 5, 5, 5, 19, 0), (D, 10 ** 16, 5, 5, 5, 0, 19), (D, 10 ** 16, 5, 5, 5, 255, 0),
              # belief prices ABOVE the normalised offer (offer/p truncates to zero) with a non-zero return and a pool spread far
              # beyond the limit: the guard has nothing to object to (C10-agent22 was caught only by some seeds)
              (2000 * D, D // 10, 1000, 499, 501, 6, 6), (2000 * D, 0, 1000, 1, 999, 6, 6), (5 * D, D // 100, 3, 1, 2, 6, 6),
              (10 ** 6 * D, D // 10, 1000, 499, 501, 8, 6), (10 ** 9 * D, D // 10, 1000, 499, 501, 6, 12), (2 * D, 10 ** 15, 1, 1, 5, 0, 0)]
    for v in corpus:
        cases.append(spread_case(*v, "corpus"))
    decs = [(a, b) for a in range(0, 19) for b in range(0, 19)]
    wide = [(26, 6), (6, 26), (19, 0), (0, 19), (20, 0), (0, 20), (255, 0), (38, 18), (18, 38)]   # native decimals are any u8
    for (od, rd) in (decs + wide if tier == "thorough" else rng.sample(decs, 90) + [(6, 18), (18, 6), (0, 18), (18, 0), (6, 6)] + wide):
        for _ in range(2 * n if tier == "quick" else 3):
            ms = rng.choice([0, 1, 10 ** 16, 5 * 10 ** 15, D - 1, D, D + 1] + rates(rng, 1))
            both = rng.random() < 0.6
            bp = rng.choice([1, D, D // 2, 2 * D, 3 * 10 ** 17, loguniform(rng, 1, 100), 10 ** (18 + rd - od) if 18 + rd - od >= 0 else 1]) if both else None
            offer = loguniform(rng, 1, 90)
            spread = loguniform(rng, 0, 60)
            # binary search the smallest accepted return
            lo, hi = 0, W128 - 1
            acc_hi = _spread_accept(bp, ms, offer, hi, spread, od, rd)
            ret = loguniform(rng, 1, 100)
            stream = "random"
            if acc_hi:
                while lo < hi:
                    mid = (lo + hi) // 2
                    if _spread_accept(bp, ms, offer, mid, spread, od, rd):
                        hi = mid
                    else:
                        lo = mid + 1
                ret, stream = lo, "directed-boundary"
            for dr in (-1, 0, 1):
                v = ret + dr
                if 0 <= v < W128:
                    cases.append(spread_case(bp, ms, offer, v, spread, od, rd, stream))
    for _ in range(120 * n):
        od, rd = rng.randrange(0, 19), rng.randrange(0, 19)
        ms = rng.choice([None, 0, 10 ** 16, D, rng.randrange(2 * D)])
        bp = rng.choice([None, 0, 1, D, loguniform(rng, 1, 127)])
        cases.append(spread_case(bp, ms, loguniform(rng, 0, 127), loguniform(rng, 0, 127), loguniform(rng, 0, 127), od, rd, "random"))
    return cases


# ---------------- assert_sent_native_token_balance ----------------
def sent_native_cases(rng, tier):
    """declared native amount vs attached coins, over denoms that differ only by case, by a suffix / prefix,
    or not at all; the matching coin first, last, absent, duplicated, zero"""
    from fw import hexs
    denoms = [b"uaura", b"UAURA", b"Uaura", b"uaur", b"uaura2", b"aura", b"uusd", b"ibc/27394FB0", b"ibc/27394fb0", b"u", b"denom0"]
    cases = []
    n = 400 if tier == "quick" else 4000
    for _ in range(n):
        native = rng.random() < 0.85
        d = rng.choice(denoms)
        amt = rng.choice([0, 1, 5, 1000, 2 ** 64, 2 ** 64 + 5, 2 ** 127])
        k = rng.randrange(0, 4)
        funds = []
        for _ in range(k):
            fd = rng.choice([d, d, rng.choice(denoms), d.swapcase(), d + b"x", d[:-1] if len(d) > 1 else d])
            fa = rng.choice([amt, amt, 0, amt + 1, max(0, amt - 1), amt % (2 ** 64), 7])
            funds.append((fd, fa))
        line = "sent_native %s %s %d %d %s" % ("n" if native else "t", hexs(d), amt, len(funds),
                                                " ".join("%s %d" % (hexs(fd), fa) for fd, fa in funds))
        cases.append(Case("sent_native", [native, d, amt, [(fd, fa) for fd, fa in funds]], [(line.strip(), "unit")],
                          "directed-matrix"))
    return cases
