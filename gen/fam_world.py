"""World-level correspondence family: drives the real contracts inside cw-multi-test through the
harness's `world` mode, step by step, choosing each next operation from the current snapshot, and
packages every history (initial snapshot, operations, outcomes, emitted swap attributes, snapshot
deltas) as one Coq case for the chk_<prop>_hist checkers (Exec/Cases.v, World/Monitors.v)."""
import hashlib
import subprocess

import fw
from fw import Case, cq
from numgen import D, W128, loguniform

USER0 = 1000
FACTORY = 0
ROUTER = 1


# ------------------------------------------------------------------ printing
def a_line(a):
    return "%s:%d" % a


HAVE_ALLOWANCE_OPS = True    # SendFrom / BurnFrom / DecreaseAllowance: switched on once the model has them
NOT_NORMALISED = 500000000   # ("T", n): token n's address in upper case; to the model an address where no contract lives


def a_coq(a):
    if a[0] == "T":
        return "(AToken %s)" % cq(NOT_NORMALISED + a[1])
    return "(ANative %s)" % cq(a[1]) if a[0] == "n" else "(AToken %s)" % cq(a[1])


def o_line(v):
    return "-" if v is None else str(v)


def o_coq(v):
    return "None" if v is None else "(Some %s)" % cq(v)


def coins_line(cs):
    return " ".join([str(len(cs))] + ["%d %d" % c for c in cs])


def coins_coq(cs):
    return "[" + "; ".join("(%s, %s)" % (cq(d), cq(n)) for d, n in cs) + "]"


def ops_line(ops):
    return " ".join([str(len(ops))] + ["%s %s" % (a_line(o), a_line(a)) for o, a in ops])


def ops_coq(ops):
    return "[" + "; ".join("(%s, %s)" % (a_coq(o), a_coq(a)) for o, a in ops) + "]"


def hook_line(h):
    k = h[0]
    if k == "hswap":
        return "hswap %s %d %s %s %s" % (a_line(h[1]), h[2], o_line(h[3]), o_line(h[4]), o_line(h[5]))
    if k == "hrouter":
        return "hrouter %s %s %s" % (ops_line(h[1]), o_line(h[2]), o_line(h[3]))
    if k == "hraw_rop":          # router-internal single hop as a hook payload: offer ask to
        return "hraw_rop %s %s %s" % (a_line(h[1]), a_line(h[2]), o_line(h[3]))
    if k == "hraw_rassert":      # router-internal minimum-receive assertion: asset prev min receiver
        return "hraw_rassert %s %d %d %d" % (a_line(h[1]), h[2], h[3], h[4])
    if k == "hraw_pdec":         # the pair's factory-only decimals update: denom d0 d1
        return "hraw_pdec %d %d %d" % (h[1], h[2], h[3])
    if k == "hraw_precv":        # a whole Receive envelope of the pair as payload: envelope sender, envelope amount, swap hook
        return "hraw_precv %d %d %s %d %s" % (h[1], h[2], a_line(h[3]), h[4], o_line(h[5]))
    return k


def hook_coq(h):
    k = h[0]
    if k == "hswap":
        return "(HSwap %s %s %s %s %s)" % (a_coq(h[1]), cq(h[2]), o_coq(h[3]), o_coq(h[4]), o_coq(h[5]))
    if k == "hrouter":
        return "(HRouterOps %s %s %s)" % (ops_coq(h[1]), o_coq(h[2]), o_coq(h[3]))
    # payloads that are messages of the receiving contract's execute interface but not hook messages are garbage to the model
    return {"hwithdraw": "HWithdraw", "hgarbage": "HGarbage", "hraw_rop": "HGarbage", "hraw_rassert": "HGarbage",
            "hraw_pdec": "HGarbage", "hraw_precv": "HGarbage"}[k]


def op_line(o):
    k = o[0]
    if k == "block":             # the chain advances by o[1] blocks (no contract is called; a refused call to the model)
        return "block %d" % o[1]
    if k == "bank":
        return "bank %d %d %s" % (o[1], o[2], coins_line(o[3]))
    if k == "transfer":
        return "transfer %d %d %d %d" % o[1:]
    if k == "transfer_from":
        return "transfer_from %d %d %d %d %d" % o[1:]
    if k == "incr_allow":
        return "incr_allow %d %d %d %d" % o[1:]
    if k == "mint":
        return "mint %d %d %d %d" % o[1:]
    if k == "burn":
        return "burn %d %d %d" % o[1:]
    if k == "send":
        return "send %d %d %d %d %s" % (o[1], o[2], o[3], o[4], hook_line(o[5]))
    if k == "send_from":        # token spender owner target amount hook
        return "send_from %d %d %d %d %d %s" % (o[1], o[2], o[3], o[4], o[5], hook_line(o[6]))
    if k == "burn_from":        # token spender owner amount
        return "burn_from %d %d %d %d" % o[1:]
    if k == "decr_allow":       # token owner spender amount
        return "decr_allow %d %d %d %d" % o[1:]
    if k == "provide":
        return "provide %d %d %s %s %d %s %d %s %s" % (o[1], o[2], coins_line(o[3]), a_line(o[4]), o[5], a_line(o[6]), o[7],
                                                       o_line(o[8]), o_line(o[9]))
    if k == "swap":
        return "swap %d %d %s %s %d %s %s %s" % (o[1], o[2], coins_line(o[3]), a_line(o[4]), o[5], o_line(o[6]), o_line(o[7]), o_line(o[8]))
    if k == "pair_receive":
        return "pair_receive %d %d %s %d %d %s" % (o[1], o[2], coins_line(o[3]), o[4], o[5], hook_line(o[6]))
    if k == "pair_upd_dec":
        return "pair_upd_dec %d %d %d %d %d" % o[1:]
    if k == "router_ops":
        return "router_ops %d %s %s %s %s" % (o[1], coins_line(o[2]), ops_line(o[3]), o_line(o[4]), o_line(o[5]))
    if k == "router_op":
        return "router_op %d %s %s %s %s" % (o[1], coins_line(o[2]), a_line(o[3]), a_line(o[4]), o_line(o[5]))
    if k == "router_assert_min":
        return "router_assert_min %d %s %d %d %d" % (o[1], a_line(o[2]), o[3], o[4], o[5])
    if k == "router_receive":
        return "router_receive %d %d %d %s" % (o[1], o[2], o[3], hook_line(o[4]))
    if k == "fac_update_config":
        return "fac_update_config %d %s" % (o[1], o_line(o[2])) + (" %d" % o[3] if len(o) > 3 and o[3] else "")
    if k == "fac_create_pair":
        return "fac_create_pair %d %s %s %d %s %d %d %s %s" % (o[1], a_line(o[2]), a_line(o[3]), len(o[4]),
                                                               " ".join(str(x) for x in o[4]), o[5], o[6], o_line(o[7]), o_line(o[8]))
    if k == "fac_add_native":
        return "fac_add_native %d %d %d" % o[1:]
    if k == "fac_migrate":
        return "fac_migrate %d %d" % o[1:3] + (" %d" % o[3] if len(o) > 3 and o[3] else "")
    raise ValueError(o)


def op_coq(o):
    k = o[0]
    n = lambda *xs: " ".join(cq(x) for x in xs)
    if k == "block":
        return op_coq(("router_assert_min", USER0, ("n", 0), 0, 0, USER0))
    if k == "bank":
        return "(OBankSend %s %s)" % (n(o[1], o[2]), coins_coq(o[3]))
    if k == "transfer":
        return "(OTransfer %s)" % n(*o[1:])
    if k == "transfer_from":
        return "(OTransferFrom %s)" % n(*o[1:])
    if k == "incr_allow":
        return "(OIncreaseAllowance %s)" % n(*o[1:])
    if k == "mint":
        return "(OMint %s)" % n(*o[1:])
    if k == "burn":
        return "(OBurn %s)" % n(*o[1:])
    if k == "send":
        return "(OSend %s %s)" % (n(*o[1:5]), hook_coq(o[5]))
    if k == "send_from":
        return "(OSendFrom %s %s)" % (n(*o[1:6]), hook_coq(o[6]))
    if k == "burn_from":
        return "(OBurnFrom %s)" % n(*o[1:])
    if k == "decr_allow":
        return "(ODecreaseAllowance %s)" % n(*o[1:])
    if k == "provide":
        return "(OProvide %s %s %s %s %s %s %s %s)" % (n(o[1], o[2]), coins_coq(o[3]), a_coq(o[4]), cq(o[5]), a_coq(o[6]), cq(o[7]),
                                                       o_coq(o[8]), o_coq(o[9]))
    if k == "swap":
        return "(OSwap %s %s %s %s %s %s %s)" % (n(o[1], o[2]), coins_coq(o[3]), a_coq(o[4]), cq(o[5]), o_coq(o[6]), o_coq(o[7]), o_coq(o[8]))
    if k == "pair_receive":
        return "(OPairReceive %s %s %s %s)" % (n(o[1], o[2]), coins_coq(o[3]), n(o[4], o[5]), hook_coq(o[6]))
    if k == "pair_upd_dec":
        return "(OPairUpdateDecimals %s)" % n(*o[1:])
    if k == "router_ops":
        return "(ORouterOps %s %s %s %s %s)" % (cq(o[1]), coins_coq(o[2]), ops_coq(o[3]), o_coq(o[4]), o_coq(o[5]))
    if k == "router_op":
        return "(ORouterOp %s %s %s %s %s)" % (cq(o[1]), coins_coq(o[2]), a_coq(o[3]), a_coq(o[4]), o_coq(o[5]))
    if k == "router_assert_min":
        return "(ORouterAssertMin %s %s %s)" % (cq(o[1]), a_coq(o[2]), n(o[3], o[4], o[5]))
    if k == "router_receive":
        return "(ORouterReceive %s %s)" % (n(o[1], o[2], o[3]), hook_coq(o[4]))
    if k == "fac_update_config":
        return "(OFacUpdateConfig %s %s)" % (cq(o[1]), o_coq(o[2]))
    if k == "fac_create_pair":
        return "(OFacCreatePair %s %s %s %s %s %s %s)" % (cq(o[1]), a_coq(o[2]), a_coq(o[3]), cq(list(o[4])), n(o[5], o[6]),
                                                           o_coq(o[7]), o_coq(o[8]))
    if k == "fac_add_native":
        return "(OFacAddNative %s)" % n(*o[1:])
    if k == "fac_migrate":
        return "(OFacMigrate %s)" % n(*o[1:3])
    raise ValueError(o)


# ------------------------------------------------------------------ the driver
class WorldProc:
    def __init__(self):
        self.p = subprocess.Popen([fw.HARNESS_BIN, "world"], stdin=subprocess.PIPE, stdout=subprocess.PIPE,
                                  stderr=subprocess.DEVNULL, text=True, bufsize=1, env=fw.ENV)

    def ask(self, line):
        self.p.stdin.write(line + "\n")
        self.p.stdin.flush()
        out = self.p.stdout.readline()
        if not out:
            raise RuntimeError("world harness died on: " + line)
        out = out.strip()
        if out.startswith("BAD"):
            raise RuntimeError("world harness rejected %r: %s" % (line, out))
        return out

    def close(self):
        try:
            self.p.stdin.close()
            self.p.wait(timeout=10)
        except Exception:
            self.p.kill()


class Hist:
    """One history: talks to the harness and mirrors the snapshot layout of World/Observe.v."""

    def __init__(self, nu, nd, nt, maxp, ubal, fbal, tdecs, stream="random", note=None, look=None, proxies=0, tf=None, rogue=None):
        self.nu, self.nd, self.nt, self.maxp = nu, nd, nt, maxp
        self.ubal, self.fbal, self.tdecs = ubal, fbal, list(tdecs)
        self.stream, self.note = stream, note
        self.look = look        # (d, t): bank denom d is spelled like the address of contract t (the model keeps them apart)
        self.proxies = proxies  # the last `proxies` users are generic proxy CONTRACTS on the chain (ordinary accounts to the model)
        self.proc = WorldProc()
        if proxies:
            self.proc.ask("proxies %d" % proxies)
        self.rogue = rogue      # (t, p): asset token t names contract p (a pair-to-be) as its minter; nobody mints it (driver convention)
        if rogue:
            self.proc.ask("rogue %d %d" % rogue)
        self.tf = tf            # (d, u): bank denom d is spelled as the token-factory denom of user u ("factory/<address>/sub")
        if tf:
            self.proc.ask("tfdenom %d %d" % tf)
        if look is not None:
            self.proc.ask("lookalike %d %d" % look)
        out = self.proc.ask("init %d %d %d %d %d %d %s" % (nu, nd, nt, maxp, ubal, fbal, " ".join(str(t) for t in tdecs)))
        self.snap = [int(x) for x in out.split()[1:]]
        self.init_snap = list(self.snap)
        self.steps = []
        self.pending_q = []
        self.n_init = 2 + nt
        self.n_contracts = self.n_init + 2 * maxp
        self.n_accounts = nu + self.n_contracts
        self.off_tokens = self.n_accounts * nd
        self.tok_stride = 4 + self.n_accounts
        self.n_tokens_all = nt + maxp
        self.off_allow = self.off_tokens + self.n_tokens_all * self.tok_stride
        self.allow_stride = nu * maxp
        self.off_fac = self.off_allow + self.n_tokens_all * self.allow_stride
        self.off_pairs = self.off_fac + 1 + nd

    # ---- layout
    def users(self):
        return [USER0 + i for i in range(self.nu)]

    def pair_ids(self):
        return [self.n_init + 2 * i for i in range(self.maxp)]

    def acct_pos(self, a):
        return a - USER0 if a >= USER0 else self.nu + a

    def token_pos(self, t):
        return t - 2 if t < self.n_init else self.nt + (t - self.n_init - 1) // 2

    def bank(self, a, d):
        return self.snap[self.acct_pos(a) * self.nd + d]

    def supply(self, t):
        return self.snap[self.off_tokens + self.token_pos(t) * self.tok_stride + 1]

    def bal(self, t, a):
        return self.snap[self.off_tokens + self.token_pos(t) * self.tok_stride + 4 + self.acct_pos(a)]

    def abal(self, asset, a):
        return self.bank(a, asset[1]) if asset[0] == "n" else self.bal(asset[1], a)

    def owner(self):
        return self.snap[self.off_fac]

    def pair(self, p, field):
        return self.snap[self.off_pairs + ((p - self.n_init) // 2) * 36 + field]

    def pair_exists(self, p):
        return self.pair(p, 0) == 1

    def pair_assets(self, p):
        out = []
        for i in (0, 1):
            k, v = self.pair(p, 1 + 2 * i), self.pair(p, 2 + 2 * i)
            out.append(("n", v) if k == 0 else ("t", v))
        return out

    def pair_lp(self, p):
        return self.pair(p, 7)

    def pairs(self):
        return [p for p in self.pair_ids() if self.pair_exists(p)]

    def reserves(self, p):
        a0, a1 = self.pair_assets(p)
        return self.abal(a0, p), self.abal(a1, p)

    # ---- acting
    def query(self, line):
        """ask the contracts a question in the current state; the answer is compared with the model's
        (it travels with the next operation of the history)"""
        out = self.proc.ask("q " + line)
        t = out.split()
        res = [int(x) for x in t[1:]] if t[0] == "ok" else None
        self.pending_q.append((line, res))
        return res

    def pair_for(self, a, b):
        for p in self.pairs():
            pa = self.pair_assets(p)
            if (pa[0] == a and pa[1] == b) or (pa[0] == b and pa[1] == a):
                return p
        return None

    def compose_queries(self, amount, ops, reverse):
        """answer the router's (reverse) simulation by composing the PAIR queries hop by hop; recorded as a
        separate query so that the monitor can compare the two implementation answers"""
        amt = amount
        hops = list(reversed(ops)) if reverse else list(ops)
        for (o, a) in hops:
            p = self.pair_for(o, a)
            if p is None:
                amt = None
                break
            out = self.proc.ask("q %s %d %s %d" % ("revsim" if reverse else "sim", p, a_line(a if reverse else o), amt)).split()
            if out[0] != "ok":
                amt = None
                break
            amt = int(out[1])
        if not ops:
            amt = None
        self.pending_q.append(("%s %d %s" % ("rrevsimc" if reverse else "rsimc", amount, ops_line(ops)), None if amt is None else [amt]))
        return amt

    @staticmethod
    def _fit(o):
        """numbers that travel as 128-bit fields of the messages (cosmwasm Decimal / Uint128: limits, tolerances, minimums)
        are clamped to 128 bits, whatever arithmetic produced them"""
        cl = lambda v: v if v is None else min(v, 2 ** 128 - 1)
        hk = lambda h: (h[:3] + (cl(h[3]), cl(h[4])) + h[5:]) if h[0] == "hswap" else \
                       (h[:2] + (cl(h[2]),) + h[3:]) if h[0] == "hrouter" else h
        k = o[0]
        if k == "swap":
            return o[:6] + (cl(o[6]), cl(o[7])) + o[8:]
        if k == "provide":
            return o[:8] + (cl(o[8]),) + o[9:]
        if k == "send":
            return o[:5] + (hk(o[5]),)
        if k == "send_from":
            return o[:6] + (hk(o[6]),)
        if k == "pair_receive":
            return o[:6] + (hk(o[6]),)
        if k == "router_ops":
            return o[:4] + (cl(o[4]),) + o[5:]
        if k == "router_receive":
            return o[:4] + (hk(o[4]),)
        return o

    def do(self, o, quote=None):
        o = self._fit(o)
        out = self.proc.ask("op " + op_line(o)).split()
        ok = out[0] == "ok"
        ne = int(out[1])
        extras = [int(x) for x in out[2:2 + ne]]
        nd_ = int(out[2 + ne])
        rest = [int(x) for x in out[3 + ne:]]
        delta = [(rest[2 * i], rest[2 * i + 1]) for i in range(nd_)]
        for i, v in delta:
            self.snap[i] = v
        self.steps.append((o, ok, extras, list(quote) if quote else [], delta, self.pending_q))
        self.pending_q = []
        return ok, extras

    def finish(self):
        if self.pending_q:
            self.do(("router_assert_min", USER0, ("n", 0), 0, 0, USER0))   # a rejected call that carries the last queries
        self.proc.close()
        return HistCase(self)


class HistCase(Case):
    __slots__ = ("h", "_key")

    def __init__(self, h):
        Case.__init__(self, "hist", [], [], h.stream, h.note)
        self.h = h
        self.results = []
        self._key = hashlib.sha1(repr((h.nu, h.nd, h.nt, h.maxp, h.ubal, h.fbal, h.tdecs, h.look, h.proxies, h.tf, getattr(h, "rogue", None),
                                       [(s[0], s[1]) for s in h.steps])).encode()).hexdigest()

    def key(self):
        return self._key

    def steps_coq(self):
        parts = []
        for (o, ok, extras, quote, delta, qs) in self.h.steps:
            parts.append("HS %s %s %s %s %s %s" % (queries_coq(qs), op_coq(o), "true" if ok else "false", cq(extras), cq(quote),
                                               "[" + "; ".join("(%s, %s)" % (cq(i), cq(v)) for i, v in delta) + "]"))
        return "[" + ";\n ".join(parts) + "]"

    def header_coq(self):
        h = self.h
        return "(mkLayout %s %s %s %s) %s %s %s %s" % (cq(h.nu), cq(h.nd), cq(h.nt), cq(h.maxp), cq(h.ubal), cq(h.fbal),
                                                        cq(h.tdecs), cq(h.init_snap))

    def term(self, prop):
        return "(chk_%s_hist %s\n %s)" % (prop, self.header_coq(), self.steps_coq())

    def trace_term(self, prop):
        h = self.h
        return ("(hist_trace mon_%s (mkLayout %s %s %s %s) (world0 (mkLayout %s %s %s %s) %s %s %s) %s %s 0)"
                % (prop if prop in MONITORS else "generic", cq(h.nu), cq(h.nd), cq(h.nt), cq(h.maxp), cq(h.nu), cq(h.nd),
                   cq(h.nt), cq(h.maxp), cq(h.ubal), cq(h.fbal), cq(h.tdecs), cq(h.init_snap), self.steps_coq()))

    def to_json(self):
        h = self.h
        return {"checker": "hist", "stream": self.stream, "note": self.note,
                "world": {"users": h.nu, "denoms": h.nd, "tokens": h.nt, "maxpairs": h.maxp, "user_balance": str(h.ubal),
                          "factory_balance": str(h.fbal), "token_decimals": h.tdecs,
                          "lookalike": list(h.look) if h.look else None, "proxies": h.proxies,
                          "tfdenom": list(h.tf) if h.tf else None, "rogue": list(h.rogue) if h.rogue else None},
                "steps": [{"op": op_line(s[0]), "ok": s[1], "swap_attrs": [str(x) for x in s[2]],
                           "quote": [str(x) for x in s[3]], "changed_slots": len(s[4]),
                           "queries": [q[0] for q in s[5]]} for s in h.steps]}


def queries_coq(qs):
    out = []
    for line, res in qs:
        c = _Cur(line.split())
        k = c.nx()
        if k == "sim":
            t = "QSim %s %s %s" % (cq(c.num()), a_coq(c.asset()), cq(c.num()))
        elif k == "revsim":
            t = "QRevSim %s %s %s" % (cq(c.num()), a_coq(c.asset()), cq(c.num()))
        elif k == "rsim":
            t = "QRSim %s %s" % (cq(c.num()), ops_coq(c.ops()))
        elif k == "rsimc":
            t = "QRSimCompose %s %s" % (cq(c.num()), ops_coq(c.ops()))
        elif k == "rrevsimc":
            t = "QRRevSimCompose %s %s" % (cq(c.num()), ops_coq(c.ops()))
        elif k == "walk":
            t = "QPairsWalk %s" % o_coq(c.onum())
        else:
            t = "QRRevSim %s %s" % (cq(c.num()), ops_coq(c.ops()))
        out.append("(%s, %s)" % (t, "None" if res is None else "Some " + cq(res)))
    return "[" + "; ".join(out) + "]"


MONITORS = {"C06", "C15", "C19", "C10", "C01", "C02", "C03", "C04", "C05", "C07", "C09", "C11", "C12", "C13", "C14", "C16", "C17", "C20"}


def replay_hist(j):
    """rebuild a history from its JSON form by re-running the operations on the real code"""
    w = j["world"]
    h = Hist(w["users"], w["denoms"], w["tokens"], w["maxpairs"], int(w["user_balance"]), int(w["factory_balance"]),
             w["token_decimals"], "replay", look=tuple(w["lookalike"]) if w.get("lookalike") else None, proxies=w.get("proxies", 0), tf=tuple(w["tfdenom"]) if w.get("tfdenom") else None,
             rogue=tuple(w["rogue"]) if w.get("rogue") else None)
    for s in j["steps"]:
        for ql in s.get("queries", []):
            kq = ql.split()[0]
            if kq in ("rsimc", "rrevsimc"):
                cc = _Cur(ql.split()[1:])
                h.compose_queries(cc.num(), cc.ops(), kq == "rrevsimc")
            else:
                h.query(ql)
        pend, h.pending_q = h.pending_q, []
        out = h.proc.ask("op " + s["op"]).split()
        ok = out[0] == "ok"
        ne = int(out[1])
        extras = [int(x) for x in out[2:2 + ne]]
        nd_ = int(out[2 + ne])
        rest = [int(x) for x in out[3 + ne:]]
        delta = [(rest[2 * i], rest[2 * i + 1]) for i in range(nd_)]
        for i, v in delta:
            h.snap[i] = v
        h.steps.append((parse_op_line(s["op"]), ok, extras, [int(x) for x in s.get("quote", [])], delta, pend))
    return h.finish()


# ---- parsing op lines back (for replay): the inverse of op_line
class _Cur:
    def __init__(self, toks):
        self.t, self.i = toks, 0

    def nx(self):
        v = self.t[self.i]
        self.i += 1
        return v

    def more(self):
        return self.i < len(self.t)

    def num(self):
        return int(self.nx())

    def onum(self):
        v = self.nx()
        return None if v == "-" else int(v)

    def asset(self):
        k, v = self.nx().split(":")
        return (k, int(v))

    def coins(self):
        return [(self.num(), self.num()) for _ in range(self.num())]

    def ops(self):
        return [(self.asset(), self.asset()) for _ in range(self.num())]

    def hook(self):
        k = self.nx()
        if k == "hswap":
            return ("hswap", self.asset(), self.num(), self.onum(), self.onum(), self.onum())
        if k == "hrouter":
            return ("hrouter", self.ops(), self.onum(), self.onum())
        if k == "hraw_rop":
            return (k, self.asset(), self.asset(), self.onum())
        if k == "hraw_rassert":
            return (k, self.asset(), self.num(), self.num(), self.num())
        if k == "hraw_pdec":
            return (k, self.num(), self.num(), self.num())
        if k == "hraw_precv":
            return (k, self.num(), self.num(), self.asset(), self.num(), self.onum())
        return (k,)


def parse_op_line(line):
    c = _Cur(line.split())
    k = c.nx()
    if k == "block":
        return (k, c.num())
    if k == "bank":
        return (k, c.num(), c.num(), c.coins())
    if k in ("transfer", "incr_allow", "mint"):
        return (k, c.num(), c.num(), c.num(), c.num())
    if k == "transfer_from":
        return (k, c.num(), c.num(), c.num(), c.num(), c.num())
    if k == "burn":
        return (k, c.num(), c.num(), c.num())
    if k == "send":
        return (k, c.num(), c.num(), c.num(), c.num(), c.hook())
    if k == "send_from":
        return (k, c.num(), c.num(), c.num(), c.num(), c.num(), c.hook())
    if k in ("burn_from", "decr_allow"):
        return (k, c.num(), c.num(), c.num(), c.num())
    if k == "provide":
        return (k, c.num(), c.num(), c.coins(), c.asset(), c.num(), c.asset(), c.num(), c.onum(), c.onum())
    if k == "swap":
        return (k, c.num(), c.num(), c.coins(), c.asset(), c.num(), c.onum(), c.onum(), c.onum())
    if k == "pair_receive":
        return (k, c.num(), c.num(), c.coins(), c.num(), c.num(), c.hook())
    if k == "pair_upd_dec":
        return (k, c.num(), c.num(), c.num(), c.num(), c.num())
    if k == "router_ops":
        return (k, c.num(), c.coins(), c.ops(), c.onum(), c.onum())
    if k == "router_op":
        return (k, c.num(), c.coins(), c.asset(), c.asset(), c.onum())
    if k == "router_assert_min":
        return (k, c.num(), c.asset(), c.num(), c.num(), c.num())
    if k == "router_receive":
        return (k, c.num(), c.num(), c.num(), c.hook())
    if k == "fac_update_config":
        caller, o = c.num(), c.onum()
        return (k, caller, o, c.num()) if c.more() else (k, caller, o)
    if k == "fac_create_pair":
        caller, a0, a1 = c.num(), c.asset(), c.asset()
        wl = [c.num() for _ in range(c.num())]
        return (k, caller, a0, a1, wl, c.num(), c.num(), c.onum(), c.onum())
    if k == "fac_add_native":
        return (k, c.num(), c.num(), c.num())
    if k == "fac_migrate":
        caller, ct = c.num(), c.num()
        return (k, caller, ct, c.num()) if c.more() else (k, caller, ct)
    raise ValueError(line)


# ------------------------------------------------------------------ scenario building blocks
def funds_for(assets_amounts):
    return [(a[1], n) for (a, n) in assets_amounts if a[0] == "n"]


def setup_pairs(h, rng, pair_assets, whitelist=None, mins=(0, 0), comm=None, provide=True, scale=None, native_decs=None, even=False):
    """owner registers the natives, creates the pairs, everybody approves every pair, user0 seeds liquidity.
    even=True (directed matrices): balanced first deposits and no wide native decimals, whatever the seed draws - a
    lopsided pool (10^7 : 10) makes every later provision of the matrix mint nothing and fail for that reason alone,
    which silently empties the matrix (seed 20260930 missed C09-agent2 that way); the draws are still consumed."""
    owner = h.owner()
    for d in range(h.nd):
        # the factory puts no bound on a native's decimals (u8): gaps of 20 and more against the other asset included
        dec = rng.choice([6, 6, 6, 6, 18, 18, 18, 0, 8, 8, rng.choice([26, 38])]) if not native_decs else native_decs[d]    # wide gaps rarely: every swap on such a pair aborts
        if even and not native_decs and dec > 18:
            dec = 6
        h.do(("fac_add_native", owner, d, dec))
    created = []
    for (a0, a1) in pair_assets:
        wl = whitelist if whitelist is not None else [USER0, USER0 + 1]
        c = comm if comm is not None else rng.choice([None, None, 0, 3 * 10 ** 15, 3 * 10 ** 17, D])
        before = set(h.pairs())
        h.do(("fac_create_pair", owner, a0, a1, wl, mins[0], mins[1], c, rng.choice([None, 6, 18])))
        new = [p for p in h.pairs() if p not in before]
        created += new
    for p in created:
        for a in h.pair_assets(p):
            if a[0] == "t":
                for u in h.users():
                    h.do(("incr_allow", a[1], u, p, h.ubal))
    if provide:
        for p in (created if provide is True else [q for i, q in enumerate(created) if i in provide]):
            a0, a1 = h.pair_assets(p)
            base = scale if scale is not None else max(1000, h.ubal // rng.choice([4, 10, 1000, 10 ** 6]))
            base = min(base, 2 ** 62)          # the first provision multiplies the two deposits in u128
            n0 = max(1, base // rng.choice([1, 1, 2, 7, 1000]))
            n1 = max(1, base // rng.choice([1, 1, 3, 5, 10 ** 6]))
            if even:
                n0 = n1 = base
            h.do(("provide", p, USER0, funds_for([(a0, n0), (a1, n1)]), a0, n0, a1, n1, None, None))
    return created


def gen_provide(h, rng, p, u):
    a0, a1 = h.pair_assets(p)
    r0, r1 = h.reserves(p)
    mode = rng.randrange(6)
    if r0 == 0 or r1 == 0:
        n0, n1 = loguniform(rng, 1, 60), loguniform(rng, 1, 60)
    else:
        n0 = max(1, min(h.abal(a0, u), r0 // rng.choice([1, 2, 10, 1000, 10 ** 6]) + rng.randrange(3)))
        n1 = n0 * r1 // r0
        if mode == 1:
            n1 = n1 + rng.choice([1, -1, n1 // 100 + 1, n1])
        elif mode == 2:
            n1 = loguniform(rng, 0, 80)
        n1 = max(0, n1)
    funds = funds_for([(a0, n0), (a1, n1)])
    if mode == 3 and funds:           # malformed: wrong attached amount
        d, n = funds[0]
        funds[0] = (d, max(0, n + rng.choice([-1, 1])))
    if mode == 5 and rng.random() < 0.6:      # malformed listing: one pair asset named twice, or a foreign asset
        other = rng.choice([a0, a1, ("n", (a0[1] + 1) % max(1, h.nd)) if a0[0] == "n" else ("t", 2 + (a0[1] - 1) % max(1, h.nt))])
        first = rng.choice([a0, a1])
        na, nb = max(1, n0), max(1, n1)
        return ("provide", p, u, funds_for([(first, na), (other, nb)]) if rng.random() < 0.7 else [], first, na, other, nb, None, None)
    if mode == 4:                     # swapped listing order
        return ("provide", p, u, funds, a1, n1, a0, n0, rng.choice([None, 10 ** 16, 5 * 10 ** 17, D]), rng.choice([None, u, h.users()[-1]]))
    tol = rng.choice([None, None, 0, 10 ** 15, 10 ** 16, 5 * 10 ** 17, D, D + 1])
    rcv = rng.choice([None, None, None, rng.choice(h.users())])
    return ("provide", p, u, funds, a0, n0, a1, n1, tol, rcv)


def gen_swap(h, rng, p, u, limits=True):
    assets = h.pair_assets(p)
    i = rng.randrange(2)
    offer, ask = assets[i], assets[1 - i]
    r = h.reserves(p)
    ro = r[i]
    have = h.abal(offer, u)
    amount = max(1, min(have, ro // rng.choice([1, 2, 10, 100, 10 ** 4, 10 ** 8]) + rng.randrange(2))) if ro else rng.randrange(1, 1000)
    if rng.random() < 0.1:
        amount = loguniform(rng, 0, 20)
    bp = ms = None
    if limits and rng.random() < 0.4:
        ms = rng.choice([0, 10 ** 15, 10 ** 16, 5 * 10 ** 16, 5 * 10 ** 17, D])
        if rng.random() < 0.6 and r[1 - i] > 0:
            bp = max(1, ro * D // max(1, r[1 - i]))
            bp = min(bp * rng.choice([100, 100, 99, 101, 50, 200]) // 100, 2 ** 128 - 1)     # a cosmwasm Decimal holds 128 bits
    to = rng.choice([None, None, None, rng.choice(h.users()), p])
    bad = rng.random() < 0.12
    if offer[0] == "n":
        funds = [(offer[1], amount)]
        if bad:
            funds = rng.choice([[], [(offer[1], amount + 1)], [(offer[1], max(0, amount - 1))], [(offer[1], amount), ((offer[1] + 1) % max(1, h.nd), 5)],
                                [((offer[1] + 1) % max(1, h.nd), amount)], [((offer[1] + 1) % max(1, h.nd), amount)]])
        elif h.nd > 1 and rng.random() < 0.2:
            # the right coin plus a sizeable coin of another denom (the pair's other asset when it is native): a donation
            # that reaches the pair before the swap is priced
            od = ask[1] if ask[0] == "n" else (offer[1] + 1) % h.nd
            extra = min(h.bank(u, od), max(1, r[1 - i] // rng.choice([1, 3, 50])))
            if extra > 0 and od != offer[1]:
                funds = sorted([(offer[1], amount), (od, extra)])
        return ("swap", p, u, funds, offer, amount, bp, ms, to)
    named = offer
    n_amount = amount
    if bad:
        named = rng.choice([ask, ("t", offer[1] + 1), ("n", 0)])
    elif rng.random() < 0.05:
        n_amount = max(0, amount + rng.choice([-1, 1]))      # an amount of 0 is possible here: never a negative numeral
    return ("send", offer[1], u, p, amount, ("hswap", named, n_amount, bp, ms, to))


def gen_withdraw(h, rng, p, u):
    lp = h.pair_lp(p)
    have = h.bal(lp, u)
    S = h.supply(lp)
    choices = [1, max(1, have // 2), have, max(1, have // 1000), have + 1, max(1, S // 10 ** 6)]
    a = rng.choice(choices)
    return ("send", lp, u, p, a, ("hwithdraw",))


def gen_route(h, rng, max_hops=3):
    """a chain route through existing pairs (occasionally a broken one)"""
    pairs = h.pairs()
    if not pairs:
        return None
    p = rng.choice(pairs)
    a = h.pair_assets(p)
    i = rng.randrange(2)
    ops = [(a[i], a[1 - i])]
    used = {p}
    cur = a[1 - i]
    for _ in range(rng.randrange(0, max_hops)):
        nxt = [q for q in pairs if q not in used and cur in h.pair_assets(q)]
        if not nxt:
            break
        q = rng.choice(nxt)
        qa = h.pair_assets(q)
        other = qa[1] if qa[0] == cur else qa[0]
        ops.append((cur, other))
        used.add(q)
        cur = other
    return ops


def gen_router(h, rng, u, with_min=True):
    ops = gen_route(h, rng)
    if ops is None:
        return None, None
    r = rng.random()
    if r < 0.08:
        ops = []
    elif r < 0.16 and len(h.pairs()) > 1:
        q = rng.choice(h.pairs())
        qa = h.pair_assets(q)
        ops = ops + [(qa[0], qa[1])]          # possibly a non-chain shape
    offer = ops[0][0] if ops else ("n", 0)
    have = h.abal(offer, u)
    amount = max(1, min(have, loguniform(rng, 1, 60)))
    quote = h.query("rsim %d %s" % (amount, ops_line(ops))) if ops else None
    m = None
    if with_min and quote is not None and rng.random() < 0.7:
        m = max(0, quote[0] + rng.choice([-1, 0, 0, 1, -quote[0], 2 ** 100]))
    to = rng.choice([None, None, rng.choice(h.users())])
    if offer[0] == "n":
        o = ("router_ops", u, [(offer[1], amount)], ops, m, to)
    else:
        o = ("send", offer[1], u, ROUTER, amount, ("hrouter", ops, m, to))
    return o, quote


def gen_misc(h, rng, u):
    k = rng.randrange(8)
    pairs = h.pairs()
    p = rng.choice(pairs) if pairs else h.pair_ids()[0]
    if k == 0 and h.nd:
        return ("bank", u, rng.choice(h.users() + [p]), [(rng.randrange(h.nd), loguniform(rng, 0, 40))])
    if k == 1 and h.nt:
        return ("transfer", 2 + rng.randrange(h.nt), u, rng.choice(h.users() + [p]), loguniform(rng, 0, 40))
    if k == 2 and h.nt:
        return ("burn", 2 + rng.randrange(h.nt), u, loguniform(rng, 0, 30))
    if k == 3 and h.nt:
        return ("mint", 2 + rng.randrange(h.nt), rng.choice([USER0, u]), rng.choice(h.users() + [p]), loguniform(rng, 0, 50))
    if k == 4 and pairs:
        return ("burn", h.pair_lp(p), u, max(1, h.bal(h.pair_lp(p), u) // 3))
    if k == 5 and pairs and rng.random() < 0.5:
        lp = h.pair_lp(p)
        b = h.bal(lp, u)
        if b > 0:
            return ("transfer", lp, u, rng.choice([p, p, rng.choice(h.users())]), rng.choice([1, max(1, b // 10)]))
    if k == 5 and pairs:
        a = rng.choice(h.pair_assets(p))
        return ("pair_receive", p, u, [], u, 100, ("hswap", a, 100, None, None, None))
    if k == 6 and pairs:
        return ("pair_receive", p, u, [], u, 100, ("hwithdraw",))
    if pairs:
        a0, a1 = h.pair_assets(p)
        return ("router_op", u, [], a0, a1, None)
    return ("fac_update_config", u, rng.choice([None, u]), rng.randrange(4))


def gen_allowance_burst(h, rng, u):
    """user-to-user allowances and the cw20 calls that spend them: an owner grants `u` an allowance on an asset token
    or an LP token, trims it, and `u` spends it through TransferFrom / SendFrom (with a swap, withdraw or router hook:
    the hook's sender is the SPENDER, the tokens are the OWNER's) / BurnFrom; then once more after the allowance ran out"""
    pairs = h.pairs()
    if not pairs:
        return []
    p = rng.choice(pairs)
    owners = [x for x in h.users() if x != u]
    ow = rng.choice(owners)
    lp = h.pair_lp(p)
    cands = [a[1] for a in h.pair_assets(p) if a[0] == "t"] + [lp]
    t = rng.choice(cands)
    have = h.bal(t, ow)
    if have <= 0:
        return []
    n = max(1, have // rng.choice([2, 10, 1000]))
    out = [("incr_allow", t, ow, u, 3 * n)]
    if rng.random() < 0.5:
        out.append(("decr_allow", t, ow, u, rng.choice([n, 1, 5 * n])))
    if t == lp:
        hook = rng.choice([("hwithdraw",), ("hwithdraw",), ("hgarbage",)])
    else:
        other = [a for a in h.pair_assets(p) if a != ("t", t)]
        hook = rng.choice([("hswap", ("t", t), n, None, None, rng.choice([None, ow])), ("hswap", ("t", t), n, None, None, None),
                           ("hwithdraw",), ("hswap", other[0], n, None, None, None)])
    out.append(("send_from", t, u, ow, p, n, hook))
    if t != lp and rng.random() < 0.5:
        a0 = [a for a in h.pair_assets(p) if a != ("t", t)][0]
        out.append(("send_from", t, u, ow, ROUTER, n, ("hrouter", [(("t", t), a0)], None, None)))
    out.append(rng.choice([("burn_from", t, u, ow, max(1, n // 2)), ("transfer_from", t, u, ow, rng.choice(h.users() + [p]), max(1, n // 2))]))
    out.append(("send_from", t, u, ow, p, 4 * n, hook))          # beyond what is left of the allowance
    out.append(("decr_allow", t, ow, u, 10 * n))                  # removes the entry
    out.append(("burn_from", t, u, ow, 1))                        # no allowance left
    return out


# ------------------------------------------------------------------ families
def pick_scale(rng):
    return rng.choice([10 ** 9, 10 ** 12, 10 ** 18, 10 ** 24, 2 ** 100])


def general_histories(rng, tier, n_hist=None, steps=None):
    n_hist = n_hist or {"quick": 10, "thorough": 120}[tier]
    steps = steps or {"quick": 36, "thorough": 70}[tier]
    cases = []
    for hi in range(n_hist):
        ubal = pick_scale(rng)
        h = Hist(4, 2, 2, 4, ubal, 1000, [rng.choice([6, 18]), rng.choice([6, 8])], "random", proxies=(hi // 2) % 2)
        kinds = [(("n", 0), ("n", 1)), (("n", 0), ("t", 2)), (("t", 2), ("t", 3))]
        if rng.random() < 0.5 and hi != 0:        # the first history always has the funded-but-unprovisioned pair below
            kinds.append((("n", 1), ("t", 3)))
        if hi % 2 == 0 and len(kinds) == 3:
            # a pair that nobody has provisioned yet (LP supply 0) but that already holds both assets, sent to it
            # directly: swaps and quotes work on it, the first provision is still to come
            kinds.append((("n", 1), ("t", 2)))
            created = setup_pairs(h, rng, kinds, provide={0, 1, 2})
            q = created[-1]
            base = max(1000, h.ubal // rng.choice([10, 10 ** 4, 10 ** 8]))
            h.do(("bank", USER0 + 2, q, [(1, base)]))
            h.do(("transfer", 2, USER0 + 2, q, max(1, base // rng.choice([1, 3, 1000]))))
            # a first provision that DECLARES a native amount the pair already holds idle, attaching nothing of it
            h.do(("provide", q, USER0, [], ("n", 1), max(1, base // 4), ("t", 2), max(1, base // 8), None, None))
            h.query("sim %d %s %d" % (q, a_line(("n", 1)), max(1, base // 100)))
            h.query("revsim %d %s %d" % (q, a_line(("n", 1)), max(1, base // 1000)))
            h.query("rsim %d %s" % (max(1, base // 100), ops_line([(("t", 2), ("n", 1))])))
            amt = max(1, base // 50)
            quote = h.query("sim %d %s %d" % (q, a_line(("n", 1)), amt))
            h.do(("swap", q, USER0 + 1, [(1, amt)], ("n", 1), amt, None, None, None), quote)
            if hi % 4 in (0, 2):
                # ... and, after the quotes and the swap on the still unprovisioned pair, a proper first provision (funds attached, whitelisted caller) on that pair, which already holds
                # idle balances of both assets: they stay in the pool, nobody else's balance moves (C07-agent21: the idle
                # balances paid out to the factory by the first provision)
                h.do(("provide", q, USER0, [(1, max(1000, base // 4))], ("n", 1), max(1000, base // 4), ("t", 2), max(1000, base // 8), None, None))
        else:
            setup_pairs(h, rng, kinds)
        # directed: the owner asks for a pair of ONE cw20 written in two spellings (never creatable); if it exists all the same,
        # it gets liquidity and a withdrawal like any other pair
        if len(h.pairs()) < h.maxp:
            before = set(h.pairs())
            h.do(("fac_create_pair", h.owner(), ("t", 2), ("T", 2), [USER0, USER0 + 1], 0, 0, None, None))
            for q_ in [x for x in h.pairs() if x not in before]:
                for u_ in h.users():
                    h.do(("incr_allow", 2, u_, q_, h.ubal))
                n_ = max(1000, h.ubal // 10 ** 6)
                h.do(("provide", q_, USER0, [], ("t", 2), n_, ("t", 2), n_, None, None))
                h.do(("provide", q_, USER0 + 1, [], ("t", 2), n_ // 2, ("t", 2), n_ // 2, None, None))
                lq = h.pair_lp(q_)
                for u_ in (USER0, USER0 + 1):
                    if h.bal(lq, u_) > 1:
                        h.do(("send", lq, u_, q_, h.bal(lq, u_) // 2, ("hwithdraw",)))
        # directed: a holder has approved the ROUTER for a cw20; somebody else hands the router a Receive envelope naming that
        # holder as sender, with a route that starts from that cw20
        h.do(("incr_allow", 2, USER0 + 2, ROUTER, h.ubal))
        for to_ in (USER0 + 1, None):
            h.do(("router_receive", USER0 + 1, USER0 + 2, max(1, h.ubal // 10 ** 5), ("hrouter", [(("t", 2), ("n", 0))], None, to_)))
        h.do(("router_ops", USER0 + 1, [], [(("t", 2), ("n", 0))], None, None))
        # directed: a direct swap that also carries a coin of a denom the pair does not trade (small and sizeable), quoted first
        for q_ in h.pairs()[:3]:
            for off in h.pair_assets(q_):
                third = [d for d in range(h.nd) if ("n", d) not in h.pair_assets(q_)]
                if off[0] != "n" or not third or h.reserves(q_)[0] == 0:
                    continue
                u_ = USER0 + 1
                amt = max(1, h.reserves(q_)[h.pair_assets(q_).index(off)] // 20)
                for extra in (7, max(1, min(h.reserves(q_)) // 3)):
                    if h.bank(u_, off[1]) >= amt and h.bank(u_, third[0]) >= extra:
                        quote = h.query("sim %d %s %d" % (q_, a_line(off), amt))
                        h.do(("swap", q_, u_, sorted([(off[1], amt), (third[0], extra)]), off, amt, None, None, None), quote)
        # directed: a direct swap that attaches LESS of the offered coin than it declares, and a hook swap that names LESS than
        # the tokens sent with it (a sizeable difference: a few units leave every amount unchanged on deep pools); both quoted
        for q_ in h.pairs()[:3]:
            if h.reserves(q_)[0] == 0 or h.reserves(q_)[1] == 0:
                continue
            for off in h.pair_assets(q_):
                u_ = USER0 + 2
                amt = max(2, h.reserves(q_)[h.pair_assets(q_).index(off)] // 10)
                if h.abal(off, u_) < amt:
                    continue
                quote = h.query("sim %d %s %d" % (q_, a_line(off), amt))
                if off[0] == "n":
                    h.do(("swap", q_, u_, [(off[1], amt // 2)], off, amt, None, None, None), quote)
                    h.do(("swap", q_, u_, [(off[1], amt - 1)], off, amt, None, None, None), quote)
                    # the offered coin, exactly, PLUS a sizeable coin of the pair's other native asset (it reaches the pool before the
                    # swap is priced and stays there; C01-agent11 / C02-agent12: refunded or subtracted)
                    oth = [a for a in h.pair_assets(q_) if a != off][0]
                    if oth[0] == "n":
                        big = max(1, h.reserves(q_)[h.pair_assets(q_).index(oth)] // 3)
                        if h.bank(u_, oth[1]) >= big and h.bank(u_, off[1]) >= amt:
                            h.do(("swap", q_, u_, sorted([(off[1], amt), (oth[1], big)]), off, amt, None, None, USER0 + 3))
                    # exactly the declared amount, but in ANOTHER denom (alone): the pair's other native asset or a coin it
                    # does not trade (C01-agent13 was caught only when the random malformed-funds variant drew this)
                    for wd in range(h.nd):
                        if wd != off[1] and h.bank(u_, wd) >= amt:
                            h.do(("swap", q_, u_, [(wd, amt)], off, amt, None, None, None), quote)
                else:
                    h.do(("send", off[1], u_, q_, amt, ("hswap", off, amt // 2, None, None, None)), quote)
        for step_k in range(steps):
            if step_k % 5 == 2:
                h.do(("block", 1 + step_k % 3))       # blocks of a few operations each (time passes between some, not all)
            u = rng.choice(h.users())
            pairs = h.pairs()
            r = rng.random()
            if not pairs:
                break
            p = rng.choice(pairs)
            if rng.random() < 0.25:
                a0, a1 = h.pair_assets(p)
                r0, r1 = h.reserves(p)
                h.query("revsim %d %s %d" % (p, a_line(rng.choice([a0, a1])), max(1, min(r0, r1) // rng.choice([2, 10, 1000, 10 ** 6]))))
            if r < 0.22:
                h.do(gen_provide(h, rng, p, u))
            elif r < 0.55:
                o = gen_swap(h, rng, p, u)
                quote = None
                if o[0] == "swap":
                    quote = h.query("sim %d %s %d" % (p, a_line(o[4]), o[5]))
                elif o[5][0] == "hswap" and o[5][1] == ("t", o[1]):
                    quote = h.query("sim %d %s %d" % (p, a_line(o[5][1]), o[5][2]))
                h.do(o, quote)
            elif r < 0.72:
                h.do(gen_withdraw(h, rng, p, u))
            elif r < 0.87:
                o, quote = gen_router(h, rng, u)
                if o:
                    h.do(o, quote)
            elif r < 0.94 or not HAVE_ALLOWANCE_OPS:
                h.do(gen_misc(h, rng, u))
            else:
                for o in gen_allowance_burst(h, rng, u):
                    h.do(o)
        # directed: hooks relayed by the WRONG token, for a sizeable part of that token's supply (a pool's own cw20 asset
        # relaying a withdraw hook, the LP token relaying a swap hook): must be refused whatever the amount (C07-agent15:
        # honoured pro rata to the relaying token's supply, which small amounts round to nothing)
        for p in h.pairs()[:3]:
            lp = h.pair_lp(p)
            for a in h.pair_assets(p):
                if a[0] == "t":
                    u = max(h.users(), key=lambda x: h.bal(a[1], x))
                    if h.bal(a[1], u) >= 3:
                        h.do(("send", a[1], u, p, h.bal(a[1], u) // 3, ("hwithdraw",)))
            u = max(h.users(), key=lambda x: h.bal(lp, x))
            if h.bal(lp, u) >= 3:
                h.do(("send", lp, u, p, h.bal(lp, u) // 3, ("hswap", ("t", lp), h.bal(lp, u) // 3, None, None, None)))
        # every holder tries to withdraw (liveness, C20)
        for p in h.pairs():
            lp = h.pair_lp(p)
            for u in h.users():
                b = h.bal(lp, u)
                if b > 0:
                    h.do(("send", lp, u, p, rng.choice([b, max(1, b // 2), max(1, b // 10)]), ("hwithdraw",)))
        cases.append(h.finish())
    return cases


def extreme_histories(rng, tier):
    """donations up to 2^120, extreme swaps, dust provisions, then withdrawals"""
    n_hist = {"quick": 4, "thorough": 40}[tier]
    cases = []
    for _ in range(n_hist):
        ubal = 2 ** 120
        h = Hist(2, 2, 1, 3, ubal, 1000, [6], "directed-extreme")
        setup_pairs(h, rng, [(("n", 0), ("n", 1)), (("n", 0), ("t", 2))], scale=rng.choice([1000, 10 ** 6, 10 ** 30]))
        for p in h.pairs():
            a0, a1 = h.pair_assets(p)
            for a in (a0, a1):
                if rng.random() < 0.6:
                    n = rng.choice([1, 10 ** 20, 2 ** 100, 2 ** 119])
                    h.do(("bank", USER0 + 1, p, [(a[1], n)]) if a[0] == "n" else ("transfer", a[1], USER0 + 1, p, n))
            for _ in range(4):
                h.do(gen_swap(h, rng, p, USER0 + 1, limits=False))
            h.do(gen_provide(h, rng, p, USER0 + 1))
            lp = h.pair_lp(p)
            if rng.random() < 0.5 and h.bal(lp, USER0 + 1) > 1:
                h.do(("transfer", lp, USER0 + 1, p, 1))        # LP parked at the pair itself
            if len(cases) % 2 == 0:
                # the owner re-registers a native of the pair with decimals 20+ away from the other asset's
                d = [a for a in (a0, a1) if a[0] == "n"][0][1]
                h.do(("fac_add_native", h.owner(), d, rng.choice([26, 38, 255])))
            for u in h.users():
                b = h.bal(lp, u)
                for a in sorted({1, max(1, b // 2), b}):
                    if 0 < a <= h.bal(lp, u):
                        h.do(("send", lp, u, p, a, ("hwithdraw",)))
        cases.append(h.finish())
    # a deep pool of two 18-decimals assets: the first mint is capped near 1.8e19 LP (u128 product under the square root), so
    # the supply only passes 2^128/10^18 = 3.4e20 through further provisions; burns above that size, off the 10^18 grid
    h = Hist(3, 2, 2, 2, 2 ** 100, 1000, [18, 18], "directed-extreme", "deep 18-decimals pool, burns above 2^128/10^18")
    created = setup_pairs(h, rng, [(("t", 2), ("t", 3)), (("n", 0), ("t", 2))], comm=3 * 10 ** 15, provide=False, native_decs=[18, 18])
    for p in created:
        a0, a1 = h.pair_assets(p)
        lp = h.pair_lp(p)
        h.do(("provide", p, USER0, funds_for([(a0, 4 * 10 ** 18), (a1, 4 * 10 ** 18 + 7)]), a0, 4 * 10 ** 18, a1, 4 * 10 ** 18 + 7, None, None))
        r0, r1 = h.reserves(p)
        h.do(("provide", p, USER0 + 1, funds_for([(a0, 1250 * r0 + 3), (a1, 1250 * r1 + 11)]), a0, 1250 * r0 + 3, a1, 1250 * r1 + 11, None, None))
        h.do(("provide", p, USER0 + 2, funds_for([(a0, 77 * r0), (a1, 77 * r1)]), a0, 77 * r0, a1, 77 * r1, None, None))
        h.do(("bank", USER0, p, [(a0[1], 12345)]) if a0[0] == "n" else ("transfer", a0[1], USER0, p, 12345))
        b1 = h.bal(lp, USER0 + 1)
        for a in (300 * 10 ** 18 + 5, 2000 * 10 ** 18, b1 // 3 + 1):
            if 0 < a <= h.bal(lp, USER0 + 1):
                h.do(("send", lp, USER0 + 1, p, a, ("hwithdraw",)))
        b2 = h.bal(lp, USER0 + 2)
        if b2 > 0:
            h.do(("send", lp, USER0 + 2, p, b2, ("hwithdraw",)))
    cases.append(h.finish())
    # the LP supply sits EXACTLY at the geometric mean of the reserves (equal first deposits, no fee collected yet), then another
    # actor's dust swaps inside the recorded rounding window (KF-ceil-window: 2e18/2e18, offer 1, the pool pays 1 with no
    # commission) lower the reserve product below supply^2; every holder must still be able to withdraw afterwards
    # (C20-agent15: a "supply <= sqrt(product)" solvency check in front of the refund)
    h = Hist(3, 2, 2, 2, 10 ** 22, 1000, [18, 18], "directed-extreme", "withdrawals after dust swaps inside the rounding window")
    created = setup_pairs(h, rng, [(("n", 0), ("t", 2)), (("t", 2), ("t", 3))], comm=3 * 10 ** 15, provide=False, native_decs=[18, 18])
    for p in created:
        a0, a1 = h.pair_assets(p)
        lp = h.pair_lp(p)
        n = 2 * 10 ** 18
        h.do(("provide", p, USER0, funds_for([(a0, n), (a1, n)]), a0, n, a1, n, None, None))
        h.do(("transfer", lp, USER0, USER0 + 2, h.bal(lp, USER0) // 4))
        h.do(("send", lp, USER0, p, 10 ** 17, ("hwithdraw",)))              # before any swap
        for k in range(3):
            off = (a0, a1)[k % 2]
            if off[0] == "n":
                h.do(("swap", p, USER0 + 1, [(off[1], 1)], off, 1, None, None, None))
            else:
                h.do(("send", off[1], USER0 + 1, p, 1, ("hswap", off, 1, None, None, None)))
            for u in (USER0, USER0 + 2):
                b = h.bal(lp, u)
                if b > 3:
                    h.do(("send", lp, u, p, b // 3, ("hwithdraw",)))
    cases.append(h.finish())
    # pools whose FIRST asset (pool order) is scarce: reserve0/reserve1 is one or a few units of the 18th digit, so deposits that
    # are far from proportional have the same 18-digit ratio as the pool; the share minted is still the smaller of the two
    # pro-rata arms (C03-agent21: "deposit at the pool price" decided by comparing truncated ratios, then one arm only)
    h = Hist(3, 2, 2, 3, 10 ** 26, 1000, [6, 18], "directed-extreme", "scarce first asset: pool ratio at the 18-digit resolution")
    created = setup_pairs(h, rng, [(("t", 2), ("t", 3)), (("n", 0), ("t", 3)), (("t", 2), ("n", 1))], comm=3 * 10 ** 15, provide=False, native_decs=[6, 6])
    for j, p in enumerate(created):
        a0, a1 = h.pair_assets(p)
        lp = h.pair_lp(p)
        n0, n1 = [(10 ** 6, 10 ** 24), (1000, 10 ** 21), (7 * 10 ** 5, 2 * 10 ** 23)][j]
        h.do(("provide", p, USER0, funds_for([(a0, n0), (a1, n1)]), a0, n0, a1, n1, None, None))
        for frac in (6, 9, 10, 3):
            d0, d1 = n0, n1 * frac // 10
            h.do(("provide", p, USER0 + 1, funds_for([(a0, d0), (a1, d1)]), a0, d0, a1, d1, None, None))
            h.do(("provide", p, USER0 + 2, funds_for([(a1, d1), (a0, d0)]), a1, d1, a0, d0, None, None))
        for u in (USER0 + 1, USER0 + 2):
            if h.bal(lp, u) > 0:
                h.do(("send", lp, u, p, h.bal(lp, u), ("hwithdraw",)))
    cases.append(h.finish())
    # the same value cycles through a pool again and again: every round a holder withdraws half of its LP and the payout is
    # donated back; no single amount is large, but the payouts ADD UP to more than 2^128
    h = Hist(2, 1, 1, 1, 2 ** 126, 1000, [18], "directed-extreme", "cumulative payouts beyond 2^128")
    created = setup_pairs(h, rng, [(("n", 0), ("t", 2))], comm=3 * 10 ** 15, provide=False, native_decs=[18])
    p = created[0]
    lp = h.pair_lp(p)
    h.do(("provide", p, USER0, [(0, 10 ** 12)], ("n", 0), 10 ** 12, ("t", 2), 10 ** 12, None, None))
    h.do(("bank", USER0 + 1, p, [(0, 2 ** 125)]))
    h.do(("transfer", 2, USER0 + 1, p, 2 ** 125))
    for rnd in range(22):
        b = h.bal(lp, USER0)
        if b < 4:
            break
        b0, b1 = h.bank(USER0, 0), h.bal(2, USER0)
        ok, _ = h.do(("send", lp, USER0, p, b // 2, ("hwithdraw",)))
        g0, g1 = h.bank(USER0, 0) - b0, h.bal(2, USER0) - b1
        if g0 > 0:
            h.do(("bank", USER0, p, [(0, g0)]))
        if g1 > 0:
            h.do(("transfer", 2, USER0, p, g1))
    cases.append(h.finish())
    # reserves whose product passes 2^256/10^18 (only reachable by donating on top of a provisioned pool): the fixed-point
    # ratio inside compute_swap no longer fits and swaps must abort, whatever their size; one reserve exactly twice the other
    for comm in (3 * 10 ** 15, 0):
        h = Hist(3, 2, 2, 1, 2 ** 110, 1000, [18, 18], "directed-extreme", "reserve product beyond 2^256/10^18")
        created = setup_pairs(h, rng, [(("t", 2), ("t", 3))], comm=comm, provide=False, native_decs=[18, 18])
        p = created[0]
        h.do(("provide", p, USER0, [], ("t", 2), 2 ** 62, ("t", 3), 2 ** 62, None, None))
        h.do(gen_swap(h, rng, p, USER0 + 1, limits=False))
        r0, r1 = h.reserves(p)
        h.do(("transfer", 2, USER0 + 2, p, 2 ** 99 - r0))
        h.do(("transfer", 3, USER0 + 2, p, 2 ** 98 - r1))
        for offer, amt in ((("t", 3), 3), (("t", 3), 2 ** 60 + 7), (("t", 2), 5), (("t", 2), 2 ** 70 + 1), (("t", 3), 1)):
            h.query("sim %d %s %d" % (p, a_line(offer), amt))
            h.do(("send", offer[1], USER0 + 1, p, amt, ("hswap", offer, amt, None, None, None)))
        lp = h.pair_lp(p)
        h.do(("send", lp, USER0, p, h.bal(lp, USER0) // 2, ("hwithdraw",)))
        cases.append(h.finish())
    # lopsided pools: a supply of ~1e19 LP units against one tiny reserve, then large burns (rounding of the refund
    # is then dominated by the burn amount if it is computed in the wrong order)
    for (n0, n1) in ([(3 * 10 ** 30, 10 ** 8), (10 ** 37, 30)] if tier == "quick" else
                     [(3 * 10 ** 30, 10 ** 8), (10 ** 37, 30), (10 ** 8, 3 * 10 ** 30), (2 * 10 ** 36, 7)]):
        h = Hist(2, 2, 1, 2, 2 ** 125, 1000, [6], "directed-extreme", "lopsided pool, large burns")
        owner = h.owner()
        h.do(("fac_add_native", owner, 0, 6))
        h.do(("fac_add_native", owner, 1, 6))
        h.do(("fac_create_pair", owner, ("n", 0), ("n", 1), [USER0], 0, 0, 3 * 10 ** 15, None))
        p = h.pairs()[0]
        h.do(("provide", p, USER0, [(0, n0), (1, n1)], ("n", 0), n0, ("n", 1), n1, None, None))
        lp = h.pair_lp(p)
        b = h.bal(lp, USER0)
        for a in (5 * 10 ** 18, b // 3, b - 1):
            if 0 < a <= h.bal(lp, USER0):
                h.do(("send", lp, USER0, p, a, ("hwithdraw",)))
        cases.append(h.finish())
    return cases


def auth_matrix(rng, tier):
    """every execute variant of the three contracts x every caller role, before and after an ownership transfer.
    Every attempt is otherwise VALID (fresh asset pair, caller whitelisted by its own message, registered denom the
    factory holds, existing pair), so that only the authorisation check can reject it; the owner goes last."""
    cases = []
    for rep in range({"quick": 1, "thorough": 4}[tier]):
        # denom 1 is spelled as the token-factory denom of the last user, who is one of the non-owner callers of the matrix
        h = Hist(4, 3, 3, 6, 10 ** 12, 1000, [6, 6, 8], "directed-matrix", "C14 caller-role matrix", tf=(1, USER0 + 3))
        created = setup_pairs(h, rng, [(("n", 0), ("t", 2)), (("t", 2), ("t", 3))])
        p = created[0]
        lp = h.pair_lp(p)
        assets = [("n", d) for d in range(3)] + [("t", 2 + i) for i in range(3)]
        fresh = [(a, b) for i, a in enumerate(assets) for b in assets[i + 1:]
                 if (a, b) not in [(("n", 0), ("t", 2)), (("t", 2), ("t", 3))]]
        rng.shuffle(fresh)
        formers = []
        h.do(("bank", USER0, ROUTER, [(0, 5000)]))
        h.do(("transfer", 2, USER0, ROUTER, 3000))
        # hook origins: with LP parked at the pairs (so that a withdrawal relayed by the wrong token would have
        # something to burn), every cw20 a user holds relays a withdraw hook and a swap hook to every pair
        for q in created:
            lq = h.pair_lp(q)
            if h.bal(lq, USER0) > 1000:
                h.do(("transfer", lq, USER0, q, 500))
        for q in created:
            lq = h.pair_lp(q)
            for ta in [2, 3, 4] + [h.pair_lp(x) for x in created]:
                if h.bal(ta, USER0) >= 10:
                    # a small amount, and a sizeable fraction of the relaying token's supply (a hook that is wrongly honoured
                    # pays out pro rata to THAT token's supply: with 10 units every refund rounds to zero and the transfer of
                    # nothing reverts the call for that reason alone - C07-agent15)
                    for amt in (10, max(11, h.bal(ta, USER0) // 3)):
                        if ta != lq:
                            h.do(("send", ta, USER0, q, amt, ("hwithdraw",)))
                        if ("t", ta) not in h.pair_assets(q):
                            h.do(("send", ta, USER0, q, amt, ("hswap", ("t", ta), amt, None, None, None)))
        for phase in (0, 1, 2):
            owner = h.owner()
            if phase < 2:
                # callers whose account NAMES are unusual: 1, 2, 55, 70 characters (the address codec refuses them), upper case
                # (C14-agent16: an owner check that fails open when the caller's name cannot be canonicalised)
                # (NOT an upper-case spelling of the owner's own address: the mock address codec folds case, as bech32 does, so
                # "USER0" canonicalises to the owner and is served - on a chain a sender is always the normalised spelling;
                # tried, raised an alarm on the unchanged tree, environment artefact, removed)
                odd = [1990, 1991, 1994, 1995] if phase == 0 else [1990, 1995]
                roles = [h.users()[-1], FACTORY, ROUTER, p, lp, 2, created[1]] + odd + formers + [owner]
            else:  # after the second hand-over: only the accounts whose standing the hand-overs changed
                roles = sorted(set(formers + [USER0 + 1, USER0 + 2]) - {owner}) + [owner]
            for c in roles:
                wl = [c] if rng.random() < 0.7 else [c, USER0]
                h.do(("fac_add_native", c, 1, 7 + phase))
                if fresh and len(h.pairs()) < h.maxp:
                    a0, a1 = fresh[0]
                    ok, _ = h.do(("fac_create_pair", c, a0, a1, wl, 0, 0, None, None))
                    if ok:
                        fresh.pop(0)
                h.do(("fac_migrate", c, p))
                h.do(("pair_upd_dec", p, c, 0, 9, 9))
                h.do(("pair_receive", p, c, [], USER0, 10, ("hwithdraw",)))
                h.do(("pair_receive", p, c, [], USER0, 10, ("hswap", ("t", 2), 10, None, None, None)))
                h.do(("pair_receive", p, c, [], USER0, 10, ("hgarbage",)))
                if c < 1990 and h.bank(c, 0) >= 300:
                    # a swap hook NAMING THE PAIR'S NATIVE ASSET, relayed by the caller itself with exactly those coins attached
                    # (C14-agent22: such a "relay" authorised)
                    h.do(("pair_receive", p, c, [(0, 50)], c, 50, ("hswap", ("n", 0), 50, None, None, None)))
                    h.do(("pair_receive", p, c, [(0, 50)], USER0, 50, ("hswap", ("n", 0), 50, None, None, USER0)))
                h.do(("router_op", c, [], ("n", 0), ("t", 2), None))
                # the internal single-hop message "prepaid": exactly the offered coin attached, with and without a
                # recipient, and the other shapes of funds (C14-agent14: a non-router caller accepted when the hop's own
                # coin rides along and `to` is given)
                if c < 1990 and h.bank(c, 0) >= 300:
                    for funds_, to_ in (([(0, 100)], c), ([(0, 100)], USER0), ([(0, 100)], None), ([(0, 100), (2, 1)], USER0)):
                        if all(h.bank(c, d_) >= n_ for d_, n_ in funds_):
                            h.do(("router_op", c, funds_, ("n", 0), ("t", 2), to_))
                h.do(("router_assert_min", c, ("n", 0), 0, 0, USER0))
                h.do(("router_receive", c, USER0, 5, ("hrouter", [(("n", 0), ("t", 2))], None, None)))
                # the contracts' internal / privileged messages smuggled in as the payload of a Receive envelope whose
                # `sender` field the caller chooses freely (the router itself, the factory, the caller)
                for env_sender in (ROUTER, FACTORY, c):
                    h.do(("router_receive", c, env_sender, 5, ("hraw_rop", ("n", 0), ("t", 2), c)))
                    h.do(("router_receive", c, env_sender, 0, ("hraw_rassert", ("n", 0), 0, 0, c)))
                    h.do(("pair_receive", p, c, [], env_sender, 10, ("hraw_pdec", 0, 9, 9)))
                if c != owner:
                    h.do(("fac_update_config", c, c, rng.randrange(4)))
            if phase < 2:
                # hand-over in two shapes of the message: with code ids named too, then the owner alone
                h.do(("fac_update_config", owner, None, rng.randrange(4)))
                shape = [[3, 1, 2, 3][rep % 4], 0][phase]
                nxt = [USER0 + 1, USER0 + 2][phase]
                h.do(("fac_update_config", owner, nxt, shape))
                formers.append(owner)
        cases.append(h.finish())
    # a caller who is not the owner but holds the ENTIRE supply of the cw20 tokens it wants listed (the owner handed everything
    # over): creation stays owner-only (C14-agent24: "an issuer may list its own token")
    h = Hist(2, 1, 2, 3, 10 ** 9, 1000, [6, 18], "directed-matrix", "C14: sole holder of the tokens is not the owner")
    h.do(("fac_add_native", h.owner(), 0, 6))
    for t in (2, 3):
        h.do(("transfer", t, USER0, USER0 + 1, h.bal(t, USER0)))
    for a0, a1 in ((("t", 2), ("t", 3)), (("n", 0), ("t", 2)), (("t", 3), ("t", 2))):
        h.do(("fac_create_pair", USER0 + 1, a0, a1, [USER0 + 1], 0, 0, None, None))
    h.do(("fac_create_pair", h.owner(), ("t", 2), ("t", 3), [USER0], 0, 0, None, None))
    cases.append(h.finish())
    return cases


def funds_matrix(rng, tier):
    """declared native amount x attached funds, for provide and both swap entry points (C09)"""
    cases = []
    v = 1000
    for rep in range({"quick": 1, "thorough": 3}[tier]):
        h = Hist(3, 12, 1, 3, 10 ** 12, 1000, [6], "directed-matrix", "C09 declared x attached matrix")
        # (a third pair whose FIRST asset is the cw20 and whose second is a native coin: a pair keeps the order CreatePair was
        # given - C09-agent17: the funds check skipped on pairs that "start with a cw20")
        created = setup_pairs(h, rng, [(("n", 0), ("n", 1)), (("n", 0), ("t", 2)), (("t", 2), ("n", 1))], comm=3 * 10 ** 15, scale=10 ** 7, even=(rep == 0))
        nn, ntp, tnp = created[0], created[1], created[2]
        u = USER0 + 1
        attach = lambda d, decl: [None, 0, decl - 1, decl, decl + 1]
        # the declared amount attached in the WRONG denom (the pair's other asset / an unrelated coin), alone and next to other coins
        for decl in (v, 1):
            for wrong in ([(1, decl)], [(2, decl)], [(1, decl), (2, decl)], [(2, decl), (0, decl - 1)] if decl > 1 else [(2, decl)]):
                h.do(("swap", nn, u, wrong, ("n", 0), decl, None, None, None))
                h.do(("swap", ntp, u, wrong, ("n", 0), decl, None, None, None))
                h.do(("provide", ntp, u, wrong, ("n", 0), decl, ("t", 2), 4 * decl, None, None))
                h.do(("provide", nn, u, wrong, ("n", 0), decl, ("n", 1), decl, None, None))
        # declared 15 (105) of denom 0 with ONE unit (ten units) of the denom spelled "5" + denom 0 attached: amount and denom
        # printed together read the same (C09-agent23 / agent25: funds compared through their printed form)
        for decl, cnt in ((15, 1), (105, 10)):
            for pr in (nn, ntp):
                h.do(("swap", pr, u, [(11, cnt)], ("n", 0), decl, None, None, None))
            h.do(("provide", ntp, u, [(11, cnt)], ("n", 0), decl, ("t", 2), 4 * decl, None, None))
            h.do(("provide", nn, u, sorted([(11, cnt), (1, decl)]), ("n", 0), decl, ("n", 1), decl, None, None))
        for decl in (0, v, 1, 3):      # 1 and 3: the return floors to zero on these pools (nothing is paid out)
            for att in attach(0, decl) + ([decl * 1000] if decl in (1, 3) else []):
                for extra in (False, True):
                    f = ([] if att is None else [(0, att)]) + ([(2, 7)] if extra else [])
                    if any(n < 0 for _, n in f):
                        continue
                    h.do(("swap", nn, u, f, ("n", 0), decl, None, None, None))
                    h.do(("swap", ntp, u, f, ("n", 0), decl, None, None, None))
                    h.do(("provide", ntp, u, f, ("n", 0), decl, ("t", 2), 4 * decl, None, None))
                    h.do(("pair_receive", ntp, u, f, u, decl, ("hswap", ("n", 0), decl, None, None, None)))
                    if decl and (att is None or att != decl):
                        # the same under-funded provisions on behalf of SOMEBODY ELSE (C09-agent19: the funds check waived when
                        # a receiver is named and the coin is absent)
                        h.do(("provide", ntp, u, f, ("n", 0), decl, ("t", 2), 4 * decl, None, USER0 + 2))
                        h.do(("provide", nn, u, f, ("n", 0), decl, ("n", 1), decl, None, u))
                    if att is not None or not extra:
                        f1 = [(1, n_) if d_ == 0 else (d_, n_) for d_, n_ in f]          # the same shapes on denom 1
                        h.do(("provide", tnp, u, f1, ("t", 2), 4 * decl, ("n", 1), decl, None, None))
                        h.do(("provide", tnp, u, f1, ("n", 1), decl, ("t", 2), 4 * decl, None, None))
                        h.do(("swap", tnp, u, f1, ("n", 1), decl, None, None, None))
                    for att1 in attach(1, decl):
                        f2 = f + ([] if att1 is None else [(1, att1)])
                        if any(n < 0 for _, n in f2):
                            continue
                        h.do(("provide", nn, u, f2, ("n", 0), decl, ("n", 1), decl, None, None))
        cases.append(h.finish())
    return cases


def provide_matrix(rng, tier):
    """asset listings of a provision: every combination of {asset0, asset1, a foreign native, a foreign token} in the
    two slots x attached funds {none, exactly what the listed natives declare, only the first} x receiver, per pair
    kind, on pairs with liquidity (C05: exactly the declared deposits are pulled; malformed listings are rejected)"""
    cases = []
    for rep in range({"quick": 1, "thorough": 3}[tier]):
        # bank denom 2 is spelled exactly like the address of cw20 token 4 (which is in no pair): on the pair (denom2, token3)
        # the "foreign token" slot is a cw20-kind asset carrying the native leg's string
        h = Hist(3, 3, 3, 4, 10 ** 12, 1000, [6, 6, 6], "directed-matrix", "C05 provision listing matrix", look=(2, 4))
        created = setup_pairs(h, rng, [(("n", 0), ("n", 1)), (("n", 0), ("t", 2)), (("t", 2), ("t", 3)), (("n", 2), ("t", 3))],
                              comm=3 * 10 ** 15, scale=10 ** 7, even=(rep == 0))
        u = USER0 + 1
        for p in created:
            a0, a1 = h.pair_assets(p)
            r0, r1 = h.reserves(p)
            d0 = max(1, r0 // 20)
            d1 = max(1, d0 * r1 // max(1, r0))
            slots = [a0, a1, ("n", 2), ("t", 4)]
            for l0 in slots:
                for l1 in slots:
                    n0 = d0 if l0 == a0 else d1 if l0 == a1 else d0
                    n1 = d1 if l1 == a1 else d0 if l1 == a0 else d1
                    fexact = funds_for([(l0, n0)] + ([(l1, n1)] if l1 != l0 else []))
                    for funds in ([], fexact, fexact[:1]):
                        for rcv in (None, h.users()[-1]):
                            h.do(("provide", p, u, funds, l0, n0, l1, n1, None, rcv))
        cases.append(h.finish())
    return cases


def first_provision_matrix(rng, tier):
    """the initial provision of a pair (LP supply 0): caller {whitelisted, not} x receiver {none, whitelisted other, other,
    the caller} x deposits {below a minimum, meeting both}, per pair kind; every account has an open allowance towards the
    pair, so only the contract's own rules decide who pays.  Then ordinary provisions on behalf of others (C05, C07)."""
    cases = []
    kinds = [(("n", 0), ("n", 1)), (("n", 0), ("t", 2)), (("t", 2), ("t", 3)), (("t", 3), ("n", 1))]
    for rep in range({"quick": 1, "thorough": 4}[tier]):
        h = Hist(4, 2, 2, 5, 10 ** 12, 1000, [6, 18], "directed-matrix", "first provision matrix")
        wl_user, other_wl, outsider, outsider2 = USER0 + 1, USER0, USER0 + 2, USER0 + 3
        # every world has all four settings of the first-provision minimums, one per pair, rotating with the world (they used
        # to be drawn per world: with seed 1 no pair allowed tiny first deposits and C05-agent13 went unseen)
        mins_list = [(1000, 2000), (1, 1), (0, 0), (5000, 10)]
        rng.choice(mins_list)          # (keeps the stream of later draws where it was)
        created, mins_of = [], {}
        for i, kind in enumerate(kinds):
            mm = mins_list[(i + rep) % 4]
            new_ = setup_pairs(h, rng, [kind], whitelist=[other_wl, wl_user], mins=mm, comm=3 * 10 ** 15, provide=False, native_decs=[6, 6])
            for q_ in new_:
                mins_of[q_] = mm
            created += new_
        # a pair created with an EMPTY whitelist: nobody may make its first provision, whatever the deposits (C05-agent17: an
        # empty list read as "no restriction")
        for q_ in setup_pairs(h, rng, [(("n", 1), ("t", 2))], whitelist=[], mins=(10, 10), comm=3 * 10 ** 15, provide=False, native_decs=[6, 6]):
            b0, b1 = h.pair_assets(q_)
            for c_ in (wl_user, other_wl, outsider):
                h.do(("provide", q_, c_, funds_for([(b0, 4000), (b1, 1000)]), b0, 4000, b1, 1000, None, None))
        # while every pair is still EMPTY the owner registers both native denoms again with fewer digits: the first-provision
        # minimums configured at creation are amounts in base units and stay what they were (C05-agent21: minimums rescaled)
        for d_ in range(h.nd):
            h.do(("fac_add_native", h.owner(), d_, 2))
        for i, p in enumerate(created):
            a0, a1 = h.pair_assets(p)
            m0, m1 = mins_of[p]
            good = (max(m0, 1000) * 3, max(m1, 1000) * 5)      # sizeable whatever the minimums, so that later shares are not zero
            def prov(c, n0, n1, rcv):
                return h.do(("provide", p, c, funds_for([(a0, n0), (a1, n1)]), a0, n0, a1, n1, None, rcv))
            # attempts the contract must refuse while the pool is empty (whoever the receiver is)
            for rcv in (wl_user, None, outsider2, outsider):
                prov(outsider, good[0], good[1], rcv)
            if m0 > 0:
                prov(wl_user, m0 - 1, good[1], rng.choice([None, other_wl]))
            if m1 > 0:
                prov(wl_user, good[0], m1 - 1, rng.choice([None, outsider]))
            # tiny first provisions (floor(sqrt(d0*d1)) = 1: nothing would be left for the receiver after the reserved unit)
            if m0 <= 1 and m1 <= 1:
                for (t0, t1) in ((1, 1), (1, 2), (2, 1), (1, 3), (3, 1)):
                    prov(wl_user, t0, t1, rng.choice([None, outsider]))
            # the one that goes through: a whitelisted caller, receiver varies with the pair
            prov(wl_user, good[0], good[1], [None, outsider, other_wl, wl_user][(i + rep) % 4])
            # a caller who holds none of the pair's cw20 assets names a receiver who holds them and has approved the pair
            for a in (a0, a1):
                if a[0] == "t" and h.bal(a[1], outsider2) > 0:
                    h.do(("transfer", a[1], outsider2, other_wl, h.bal(a[1], outsider2)))
            r0, r1 = h.reserves(p)
            if r0 > 0 and r1 > 0:
                n0 = max(1, r0 // 11)
                prov(outsider2, n0, max(1, n0 * r1 // r0), wl_user)
                prov(outsider2, n0, max(1, n0 * r1 // r0), None)
            # ordinary provisions are open to all and are paid by the caller, whoever receives the LP
            for c, rcv in ((outsider, wl_user), (outsider2, None), (wl_user, outsider)):
                r0, r1 = h.reserves(p)
                if r0 > 0 and r1 > 0:
                    n0 = max(1, r0 // 7)
                    prov(c, n0, max(1, n0 * r1 // r0), rcv)
        cases.append(h.finish())
    return cases


def commission_histories(rng, tier):
    """pairs of every kind created with commission rates {0, default, 1%, 1/2, 1, 10^-18}; direct swaps by both entry
    points and quotes before and after the factory owner migrates each pair (no code id, the current one, another
    stored copy of the same code) and after a code roll-out (C06 at system level)"""
    cases = []
    rates = [0, None, 10 ** 16, 5 * 10 ** 17, D, 1, 3 * 10 ** 16]
    for rep in range({"quick": 2, "thorough": 8}[tier]):
        h = Hist(3, 2, 2, 4, 10 ** 24, 1000, [6, 18], "directed-matrix", "commission rates x migration")
        kinds = [(("n", 0), ("n", 1)), (("n", 0), ("t", 2)), (("t", 2), ("t", 3)), (("t", 3), ("n", 1))]
        owner = h.owner()
        for d in range(h.nd):
            h.do(("fac_add_native", owner, d, 6))
        for i, (a0, a1) in enumerate(kinds):
            h.do(("fac_create_pair", owner, a0, a1, [USER0], 0, 0, rates[(i + 4 * rep) % len(rates)], None))
        created = h.pairs()
        for p in created:
            for a in h.pair_assets(p):
                if a[0] == "t":
                    for u in h.users():
                        h.do(("incr_allow", a[1], u, p, h.ubal))
            a0, a1 = h.pair_assets(p)
            n0, n1 = rng.choice([4000396, 10 ** 12, 10 ** 20]), rng.choice([9124100, 3 * 10 ** 12, 7 * 10 ** 19])
            h.do(("provide", p, USER0, funds_for([(a0, n0), (a1, n1)]), a0, n0, a1, n1, None, None))

        def swaps(p):
            u = USER0 + 1
            for i in (0, 1):
                offer = h.pair_assets(p)[i]
                r = h.reserves(p)
                for amt in (max(1, r[i] // 32), max(1, r[i] // 1000) + 7, 123457):
                    amt = min(amt, h.abal(offer, u))
                    if amt <= 0:
                        continue
                    quote = h.query("sim %d %s %d" % (p, a_line(offer), amt))
                    other = h.pair_assets(p)[1 - i]
                    if amt == 123457:
                        # reverse quotes at the very top of the feasible range: the largest ask for which the closed form is
                        # defined is floor(ask_reserve * (1 - c)); one below, at, one above (C12-agent22: refused at the top)
                        c_ = h.pair(p, 10)
                        top = r[1 - i] * (D - c_) // D
                        for ask_amt in (top - 1, top, top + 1):
                            if ask_amt > 0:
                                h.query("revsim %d %s %d" % (p, a_line(other), ask_amt))
                        # a swap with BOTH limits given and met (belief price at the quoted price, 50% spread limit): the
                        # amounts it reports obey the same laws (C06-agent22: the reported spread replaced by the shortfall
                        # against the belief price)
                        if quote and quote[0] > 0:
                            od, rd = h.pair(p, 5 + i), h.pair(p, 6 - i)
                            onorm = amt * 10 ** (rd - od) if rd > od else amt
                            rnorm = quote[0] * 10 ** (od - rd) if od > rd else quote[0]
                            bp = min(max(1, onorm * D // rnorm), 2 ** 127)
                            if offer[0] == "n":
                                h.do(("swap", p, u, [(offer[1], amt)], offer, amt, bp, D // 2, None), quote)
                            else:
                                h.do(("send", offer[1], u, p, amt, ("hswap", offer, amt, bp, D // 2, None)), quote)
                            quote = h.query("sim %d %s %d" % (p, a_line(offer), amt))
                    if offer[0] == "n" and other[0] == "n" and amt % 2 == 1 and h.bank(u, other[1]) > 0:
                        # the pair's other native coin rides along: it reaches the pool before the swap is priced
                        ex = min(h.bank(u, other[1]), max(1, r[1 - i] // 9))
                        h.do(("swap", p, u, sorted([(offer[1], amt), (other[1], ex)]), offer, amt, None, None, None))
                    elif offer[0] == "n":
                        h.do(("swap", p, u, [(offer[1], amt)], offer, amt, None, None, None), quote)
                    else:
                        if amt == 123457:
                            # the execute entry point naming the cw20 (the sender has approved the pair): not a way to offer it
                            h.do(("swap", p, u, [], offer, amt, None, None, None), quote)
                        h.do(("send", offer[1], u, p, amt, ("hswap", offer, amt, None, None, None)), quote)
        for p in created:
            swaps(p)
        for i, p in enumerate(created):
            h.do(("fac_migrate", owner, p, (i + rep) % 3))
            swaps(p)
        h.do(("fac_update_config", owner, None, 8))
        for i, p in enumerate(created[:2]):
            h.do(("fac_migrate", owner, p, 1 + (i + rep) % 2))
            swaps(p)
        cases.append(h.finish())
    # one pair per NUMBER OF FRACTIONAL DIGITS of the rate (1..18 significant digits): the rate travels as a decimal string
    # through CreatePair, the pair's instantiate message and storage, so a parser that is wrong for one digit count only
    # shows on a pair created with such a rate (C06-agent14: 10^12 entry of a power table, six digits)
    h = Hist(2, 3, 4, 18, 10 ** 24, 1000, [6, 18, 6, 8], "directed-matrix", "commission rates with 1..18 fractional digits")
    owner = h.owner()
    for d in range(h.nd):
        h.do(("fac_add_native", owner, d, 6))
    assets = [("n", d) for d in range(h.nd)] + [("t", 2 + t) for t in range(h.nt)]
    sets = [(assets[i], assets[j]) for i in range(len(assets)) for j in range(i + 1, len(assets))]
    rng.shuffle(sets)
    for k in range(1, 19):
        r = rng.randrange(1, 10 ** k)
        if r % 10 == 0:
            r += rng.randrange(1, 10)
        if k >= 3 and rng.random() < 0.5:
            r = r % (10 ** (k - 2)) or 1           # realistic small rates too (leading zeros after the point)
            if r % 10 == 0:
                r += 1
        a0, a1 = sets[k - 1]
        before = set(h.pairs())
        h.do(("fac_create_pair", owner, a0, a1, [USER0], 0, 0, r * 10 ** (18 - k), None))
        new = [p for p in h.pairs() if p not in before]
        if not new:
            continue
        p = new[0]
        for a in h.pair_assets(p):
            if a[0] == "t":
                for u in h.users():
                    h.do(("incr_allow", a[1], u, p, h.ubal))
        b0, b1 = h.pair_assets(p)
        n0, n1 = 4 * 10 ** 10, 25 * 10 ** 9
        h.do(("provide", p, USER0, funds_for([(b0, n0), (b1, n1)]), b0, n0, b1, n1, None, None))
        u = USER0 + 1
        for i, amt in ((0, 99999), (1, 12345678)):
            offer = h.pair_assets(p)[i]
            quote = h.query("sim %d %s %d" % (p, a_line(offer), amt))
            if offer[0] == "n":
                h.do(("swap", p, u, [(offer[1], amt)], offer, amt, None, None, None), quote)
            else:
                h.do(("send", offer[1], u, p, amt, ("hswap", offer, amt, None, None, None)), quote)
    cases.append(h.finish())
    return cases


def deep_pool_histories(rng, tier):
    """the deepest pool a pair accepts (reserve product just under (2^256-1)/10^18, the bound provide_liquidity enforces):
    every offer is quoted, then swapped, by both entry points and in both directions, from 10^18 up to sizes whose retained
    commission lifts the product over the bound; reverse quotes too (C12: whenever the swap succeeds the quote was the same
    - C12-agent16: the simulation refused offers the swap still accepts)"""
    cases = []
    for comm in (3 * 10 ** 15, 0) if tier == "quick" else (3 * 10 ** 15, 0, 3 * 10 ** 16, D // 2):
        h = Hist(3, 2, 2, 2, 2 ** 119, 1000, [18, 18], "directed-extreme", "deepest pool the pair accepts, rate %d" % comm)
        created = setup_pairs(h, rng, [(("n", 0), ("t", 2)), (("t", 2), ("t", 3))], comm=comm, provide=False, native_decs=[18, 18])
        side = 340282366920 * 10 ** 18
        for p in created:
            a0, a1 = h.pair_assets(p)
            h.do(("provide", p, USER0, funds_for([(a0, 10 ** 19), (a1, 10 ** 19)]), a0, 10 ** 19, a1, 10 ** 19, None, None))
            top = side - 10 ** 19
            h.do(("provide", p, USER0, funds_for([(a0, top), (a1, top)]), a0, top, a1, top, None, None))
            h.do(("provide", p, USER0, funds_for([(a0, 10 ** 19), (a1, 10 ** 19)]), a0, 10 ** 19, a1, 10 ** 19, None, None))   # over the bound
            # (the last two: offers about as large as the reserve, where ask_reserve * offer passes 2^196 and approaches
            # 2^256/10^18 - C06-agent18: a quote-only code path that multiplies by a truncated price there)
            for k, amt in enumerate((10 ** 18, 10 ** 20, 10 ** 21, 3 * 10 ** 21 + 7, 10 ** 24, 3 * 10 ** 29 + 12345, 31 * 10 ** 28 + 1)):
                offer = (a0, a1)[k % 2]
                u = USER0 + 1
                quote = h.query("sim %d %s %d" % (p, a_line(offer), amt))
                h.query("revsim %d %s %d" % (p, a_line((a0, a1)[1 - k % 2]), amt // 2))
                if offer[0] == "n":
                    h.do(("swap", p, u, [(offer[1], amt)], offer, amt, None, None, None), quote)
                else:
                    h.do(("send", offer[1], u, p, amt, ("hswap", offer, amt, None, None, None)), quote)
            lp = h.pair_lp(p)
            h.do(("send", lp, USER0, p, h.bal(lp, USER0) // 2, ("hwithdraw",)))
        cases.append(h.finish())
    return cases


def reverse_top_histories(rng, tier):
    """reverse quotes at the very top of the feasible range on small pools (so that the answer, of the order of the reserve
    product, fits 128 bits): asks floor(ask_reserve*(1-c)) - 1, exactly that, and + 1, both directions, three rates
    (C12-agent22: the largest feasible ask refused by a guard that floors the bound and compares with >=)"""
    h = Hist(2, 2, 2, 3, 10 ** 12, 1000, [6, 6], "directed-boundary", "reverse quotes at the top of the feasible range")
    owner = h.owner()
    for d in range(h.nd):
        h.do(("fac_add_native", owner, d, 6))
    specs = [((("n", 0), ("t", 2)), 3 * 10 ** 15, (2000000, 1000001)), ((("t", 2), ("t", 3)), 3 * 10 ** 16, (4000396, 9124100)),
             ((("n", 0), ("n", 1)), 0, (1000003, 777777))]
    for (a0, a1), c, (n0, n1) in specs:
        before = set(h.pairs())
        h.do(("fac_create_pair", owner, a0, a1, [USER0], 0, 0, c, None))
        for p in [q for q in h.pairs() if q not in before]:
            for a in h.pair_assets(p):
                if a[0] == "t":
                    h.do(("incr_allow", a[1], USER0, p, h.ubal))
            b0, b1 = h.pair_assets(p)
            h.do(("provide", p, USER0, funds_for([(b0, n0), (b1, n1)]), b0, n0, b1, n1, None, None))
            for i in (0, 1):
                ask = h.pair_assets(p)[i]
                top = h.reserves(p)[i] * (D - c) // D
                for ask_amt in (top - 2, top - 1, top, top + 1, h.reserves(p)[i]):
                    h.query("revsim %d %s %d" % (p, a_line(ask), ask_amt))
            h.do(("send", h.pair_lp(p), USER0, p, 10, ("hwithdraw",)))      # carries the queries
    return [h.finish()]


def rate_text_histories(rng, tier):
    """commission rates as TEXT through the factory's CreatePair: whole numbers above one (10, 100, 2, 20: must be refused - a
    rate is at most 1), one itself, and fractions with trailing zeros in their 18-digit form; every created pair must
    describe exactly the number asked for (C18-agent20: trailing zeros trimmed from the field's text before parsing, so that
    "10" was read as 1)"""
    h = Hist(2, 4, 4, 16, 10 ** 12, 1000, [6, 18, 6, 8], "directed-matrix", "commission rates as text: whole numbers, one, padded fractions")
    owner = h.owner()
    for d in range(h.nd):
        h.do(("fac_add_native", owner, d, 6))
    assets = [("n", d) for d in range(h.nd)] + [("t", 2 + t) for t in range(h.nt)]
    sets = [(assets[i], assets[j]) for i in range(len(assets)) for j in range(i + 1, len(assets))]
    rates = [10 * D, 100 * D, 2 * D, 20 * D, 10 ** 6 * D, D, 10 ** 17, 5 * 10 ** 17, 10 ** 16, 3 * 10 ** 16, 10 ** 15, 10 ** 3, 10, 1, 0, D + 10, 11 * D // 10]
    k = 0
    for r in rates:
        a0, a1 = sets[k]
        ok, _ = h.do(("fac_create_pair", owner, a0, a1, [USER0], 0, 0, r, None))
        if ok:
            k += 1
    return [h.finish()]


def lookalike_histories(rng, tier):
    """worlds in which a bank denom is spelled exactly like a cw20 contract address (the model keeps the two kinds apart, as
    AssetInfo equality must): every entry point is offered the look-alike in place of the real asset, with and without
    the matching coins attached (C01, C02, C03, C07, C09)"""
    cases = []
    for rep in range({"quick": 1, "thorough": 3}[tier]):
        # world A: denom 2 is spelled like token 2, which the pairs trade
        h = Hist(3, 3, 2, 3, 10 ** 12, 1000, [6, 18], "directed-matrix", "look-alike denom = traded cw20", look=(2, 2))
        created = setup_pairs(h, rng, [(("n", 0), ("t", 2)), (("t", 2), ("t", 3)), (("n", 0), ("n", 1))],
                              comm=rng.choice([0, 3 * 10 ** 15]), scale=10 ** 8, even=(rep == 0))
        u = USER0 + 1
        for p in created[:2]:
            a0, a1 = h.pair_assets(p)
            other = a1 if a0 == ("t", 2) else a0
            r = h.reserves(p)
            rt = r[0] if a0 == ("t", 2) else r[1]
            for amt in (max(1, rt // 50), max(1, rt // 2), rt):
                for to in (None, USER0 + 2):
                    h.do(("swap", p, u, [(2, amt)], ("n", 2), amt, None, None, to))
            h.do(("swap", p, u, [], ("n", 2), 1000, None, None, None))
            h.do(("swap", p, u, [(2, 1000)], ("t", 2), 1000, None, None, None))
            # provisions listing the look-alike for the cw20 leg
            n_t, n_o = max(1, rt // 10), max(1, (r[1] if a0 == ("t", 2) else r[0]) // 10)
            for funds in ([(2, n_t)], [], funds_for([(other, n_o)]) + [(2, n_t)]):
                h.do(("provide", p, u, sorted(funds), ("n", 2), n_t, other, n_o, None, None))
            h.do(gen_swap(h, rng, p, u, limits=False))
        # the router: a route that offers / asks the look-alike
        for ops, funds in (([(("n", 2), ("n", 0))], [(2, 5000)]), ([(("n", 0), ("n", 2))], [(0, 5000)]),
                           ([(("n", 2), ("t", 3))], [(2, 5000)]), ([(("n", 1), ("n", 0)), (("n", 0), ("n", 2))], [(1, 5000)])):
            h.query("rsim 5000 %s" % ops_line(ops))
            h.do(("router_ops", u, funds, ops, None, None))
        cases.append(h.finish())
        # world B: denom 2 is spelled like token 4, which users hold but no pair trades; the pair (denom2, token3) has a
        # native leg that a cw20-kind asset can name
        h = Hist(3, 3, 3, 3, 10 ** 12, 1000, [6, 6, 18], "directed-matrix", "look-alike cw20 = traded denom", look=(2, 4))
        created = setup_pairs(h, rng, [(("n", 2), ("t", 3)), (("n", 0), ("n", 2))], comm=3 * 10 ** 15, scale=10 ** 8, even=(rep == 0))
        for u2 in h.users():
            for p in created:
                h.do(("incr_allow", 4, u2, p, h.ubal))
        for p in created:
            a0, a1 = h.pair_assets(p)
            other = a1 if a0 == ("n", 2) else a0
            r = h.reserves(p)
            rn, ro = (r[0], r[1]) if a0 == ("n", 2) else (r[1], r[0])
            n_n, n_o = max(1, rn // 10), max(1, ro // 10)
            fo = funds_for([(other, n_o)])
            for funds in (fo, sorted(fo + [(2, n_n)]), sorted(fo + [(2, n_n - 1)])):
                for lst in ((("t", 4), n_n, other, n_o), (other, n_o, ("t", 4), n_n)):
                    h.do(("provide", p, u, funds, lst[0], lst[1], lst[2], lst[3], None, None))
            h.do(("provide", p, u, sorted(fo + [(2, n_n)]), ("n", 2), n_n, other, n_o, None, None))
            for amt in (max(1, rn // 20), rn):
                h.do(("send", 4, u, p, amt, ("hswap", ("t", 4), amt, None, None, None)))
                h.do(("send", 4, u, p, amt, ("hswap", ("n", 2), amt, None, None, None)))
                h.do(("swap", p, u, [(2, amt)], ("t", 4), amt, None, None, None))
            h.do(gen_swap(h, rng, p, u, limits=False))
            lp = h.pair_lp(p)
            b = h.bal(lp, u)
            if b > 0:
                h.do(("send", lp, u, p, b, ("hwithdraw",)))
        cases.append(h.finish())
    return cases


def reseed_histories(rng, tier):
    """every LP holder withdraws its whole balance (the supply falls back to the one locked unit, the pool keeps dust),
    somebody donates to the deserted pool, then provisions arrive again - by a whitelisted and by another account, with
    and without a receiver (C03, C05, C07)"""
    cases = []
    kinds = [(("n", 0), ("n", 1)), (("n", 0), ("t", 2)), (("t", 2), ("t", 3))]
    for rep in range({"quick": 1, "thorough": 4}[tier]):
        h = Hist(4, 2, 2, 3, 10 ** 15, 1000, [6, 18], "directed-matrix", "withdraw to the locked unit, then provide again")
        created = setup_pairs(h, rng, kinds, whitelist=[USER0, USER0 + 1], mins=(rng.choice([0, 10]), 0), comm=3 * 10 ** 15, provide=False)
        for i, p in enumerate(created):
            a0, a1 = h.pair_assets(p)
            lp = h.pair_lp(p)
            n0, n1 = rng.choice([(1000, 6000), (10 ** 6, 10 ** 6), (50000, 10 ** 9)])
            h.do(("provide", p, USER0, funds_for([(a0, n0), (a1, n1)]), a0, n0, a1, n1, None, None))
            if (i + rep) % 2 == 0:
                h.do(("provide", p, USER0 + 2, funds_for([(a0, n0 // 2), (a1, n1 // 2)]), a0, n0 // 2, a1, n1 // 2, None, USER0 + 3))
            h.do(gen_swap(h, rng, p, USER0 + 1, limits=False))
            for u in h.users():
                b = h.bal(lp, u)
                if b > 0:
                    h.do(("send", lp, u, p, b, ("hwithdraw",)))
            if (i + rep) % 3 != 2:
                # somebody sends assets to the deserted pool
                for a, n in ((a0, rng.choice([5, 10 ** 4])), (a1, rng.choice([7, 10 ** 5]))):
                    h.do(("bank", USER0 + 2, p, [(a[1], n)]) if a[0] == "n" else ("transfer", a[1], USER0 + 2, p, n))
            for c, rcv in ((USER0 + 2, None), (USER0 + 1, USER0 + 3), (USER0, None), (USER0 + 2, USER0 + 1)):
                r0, r1 = h.reserves(p)
                d0 = rng.choice([50000, max(1, r0) * 3, 10 ** 6])
                d1 = max(1, d0 * max(1, r1) // max(1, r0))
                h.do(("provide", p, c, funds_for([(a0, d0), (a1, d1)]), a0, d0, a1, d1, None, rcv))
            h.do(gen_swap(h, rng, p, USER0 + 1, limits=False))
        cases.append(h.finish())
    return cases


def lp_handover_histories(rng, tier):
    """LP tokens change hands by plain cw20 transfers (to accounts that never provided, in parts and in whole), then every
    holder withdraws - the whole balance first for the accounts that only ever received LP, then the original providers
    (C20, C04)"""
    cases = []
    kinds = [(("n", 0), ("t", 2)), (("t", 2), ("t", 3)), (("n", 0), ("n", 1))]
    for rep in range({"quick": 1, "thorough": 4}[tier]):
        # the last two users are proxy contracts: LP held, handed over and redeemed by contracts
        h = Hist(4, 2, 2, 3, 10 ** 15, 1000, [6, 18], "directed-matrix", "LP handed over by transfer, then withdrawn", proxies=2)
        # pairs created WITH first-provision minimums (met by the seeding deposit): they bind the first provision only
        # (first history: balanced seeding deposits of 10^9 with minimums of 4*10^8 each, so that the reserves certainly fall
        # below the creation minimums while several holders are still in - whatever the seed draws; C20-agent11 was caught
        # only when the drawn deposit happened to sit at the minimum)
        created = setup_pairs(h, rng, kinds, comm=3 * 10 ** 15, scale=10 ** 9, native_decs=[6, 6],
                              mins=(4 * 10 ** 8, 4 * 10 ** 8) if rep == 0 else (10 ** 6, 1000), even=(rep == 0))
        for i, p in enumerate(created):
            lp = h.pair_lp(p)
            a0, a1 = h.pair_assets(p)
            if (i + rep) % 2 == 0:
                r0, r1 = h.reserves(p)
                h.do(("provide", p, USER0 + 1, funds_for([(a0, r0 // 3), (a1, r1 // 3)]), a0, r0 // 3, a1, r1 // 3, None, None))
            b = h.bal(lp, USER0)
            h.do(("transfer", lp, USER0, USER0 + 2, b // 4))
            h.do(("transfer", lp, USER0, USER0 + 3, b // 5))
            if (i + rep) % 3 == 0:
                h.do(("transfer", lp, USER0 + 2, USER0 + 3, h.bal(lp, USER0 + 2)))      # a holder hands over everything
            if (i + rep) % 3 != 1:
                # LP tokens that can never move again: sent to the LP token's own address, or minted there by a provision
                h.do(("transfer", lp, USER0, lp, max(1, h.bal(lp, USER0) // 6)))
                r0, r1 = h.reserves(p)
                if r0 > 10 and r1 > 10:
                    h.do(("provide", p, USER0 + 1, funds_for([(a0, r0 // 9), (a1, r1 // 9)]), a0, r0 // 9, a1, r1 // 9, None, lp))
            h.do(gen_swap(h, rng, p, USER0 + 1, limits=False))
            # time passes; then, WITHIN one block, another actor's large swap (more than doubling the price) is followed by a
            # holder's withdrawal (C20-agent17: withdrawals refused when the price moved within the block)
            h.do(("block", 3))
            r0, r1 = h.reserves(p)
            if r0 > 0 and h.abal(a0, USER0 + 1) >= r0:
                if a0[0] == "n":
                    h.do(("swap", p, USER0 + 1, [(a0[1], r0)], a0, r0, None, None, None))
                else:
                    h.do(("send", a0[1], USER0 + 1, p, r0, ("hswap", a0, r0, None, None, None)))
                if h.bal(lp, USER0) > 10:
                    h.do(("send", lp, USER0, p, h.bal(lp, USER0) // 10, ("hwithdraw",)))
            h.do(("block", 1))
            if HAVE_ALLOWANCE_OPS and (i + rep) % 2 == 1:
                # the allowance entry point: a spender holding no LP of its own redeems an owner's LP (SendFrom + hook)
                ow, sp = USER0, USER0 + 3 if h.bal(lp, USER0 + 3) == 0 else USER0 + 2
                k = max(1, h.bal(lp, ow) // 7)
                h.do(("incr_allow", lp, ow, sp, 2 * k))
                h.do(("send_from", lp, sp, ow, p, k, ("hwithdraw",)))
                h.do(("send_from", lp, sp, ow, p, k, ("hwithdraw",)))
                h.do(("send_from", lp, sp, ow, p, 1, ("hwithdraw",)))        # allowance used up
            for u in (USER0 + 3, USER0 + 2, USER0 + 1, USER0):
                b = h.bal(lp, u)
                if b > 0:
                    if u == USER0 + 1:
                        h.do(("send", lp, u, p, max(1, b // 2), ("hwithdraw",)))
                        b = h.bal(lp, u)
                    h.do(("send", lp, u, p, b, ("hwithdraw",)))
        cases.append(h.finish())
    return cases


def dust_withdrawal_histories(rng, tier):
    """withdrawals so small that BOTH refunds floor to zero (1 LP unit right after an equal first provision whose size has a
    prime factor other than 2 and 5; below supply/10^18 on a very deep pool): the unchanged pair cannot pay nothing and the
    call fails leaving everything as it was; 2 units already pay (C07-agent19: such a withdrawal 'succeeded' and handed the
    LP to the LP token contract's own account)"""
    cases = []
    h = Hist(3, 2, 2, 3, 10 ** 24, 1000, [6, 18], "directed-boundary", "withdrawals whose refunds both floor to zero")
    created = setup_pairs(h, rng, [(("n", 0), ("n", 1)), (("n", 0), ("t", 2)), (("t", 2), ("t", 3))], comm=3 * 10 ** 15, provide=False, native_decs=[6, 6])
    for p, n in zip(created, (3 * 10 ** 6, 7 * 10 ** 6 + 7, 3 * 10 ** 18)):
        a0, a1 = h.pair_assets(p)
        lp = h.pair_lp(p)
        h.do(("provide", p, USER0, funds_for([(a0, n), (a1, n)]), a0, n, a1, n, None, None))
        h.do(("transfer", lp, USER0, USER0 + 1, n // 3))
        for u in (USER0, USER0 + 1):
            for amt in (1, 2, 1, 3):
                h.do(("send", lp, u, p, amt, ("hwithdraw",)))
        # a holder whose WHOLE position is below the 18-digit resolution of the share ratio (2 LP of 3*10^18) redeems all of it
        # (C04-agent20: such a position "closed out" at a ratio clamped up to 10^-18, i.e. paid more than its share)
        h.do(("transfer", lp, USER0, USER0 + 2, 1))
        h.do(("send", lp, USER0 + 2, p, 1, ("hwithdraw",)))          # the whole position: 1 LP
        h.do(("transfer", lp, USER0, USER0 + 2, 2))
        h.do(("send", lp, USER0 + 2, p, h.bal(lp, USER0 + 2), ("hwithdraw",)))   # the whole position again
        h.do(("send", lp, USER0 + 2, p, 1, ("hwithdraw",)))
        h.do(gen_swap(h, rng, p, USER0 + 2, limits=False))
        for u in (USER0 + 1, USER0, USER0 + 2):
            if h.bal(lp, u) > 0:
                h.do(("send", lp, u, p, min(h.bal(lp, u), 1 if u != USER0 + 2 else 2), ("hwithdraw",)))
    cases.append(h.finish())
    return cases


def counterfeit_lp_histories(rng, tier):
    """a cw20 that is NOT the pair's LP token but looks like a share token of it: its minter is the pair's address, outsiders
    hold all of its supply; it relays withdraw hooks (and swap hooks) for large parts of that supply.  Must be refused like
    any foreign token (C04-agent16: any cw20 whose minter is the pair accepted as share token, paid pro rata to ITS supply)"""
    cases = []
    for rep in range({"quick": 1, "thorough": 3}[tier]):
        h = Hist(3, 2, 3, 2, 10 ** 12, 1000, [6, 6, 6], "directed-matrix", "counterfeit share token (minter = the pair)",
                 rogue=(4, 5 + 2 * (rep % 2)))
        created = setup_pairs(h, rng, [(("n", 0), ("t", 2)), (("t", 2), ("t", 3))], comm=3 * 10 ** 15, scale=10 ** 9, even=True)
        for p in created:
            for u in (USER0 + 1, USER0 + 2):
                for amt in (h.bal(4, u), h.bal(4, u) // 2, 1):
                    if amt > 0:
                        h.do(("send", 4, u, p, amt, ("hwithdraw",)))
                h.do(("send", 4, u, p, 1000, ("hswap", ("t", 4), 1000, None, None, None)))
            lp = h.pair_lp(p)
            h.do(("send", lp, USER0, p, h.bal(lp, USER0) // 3, ("hwithdraw",)))
        cases.append(h.finish())
    return cases


def swap_matrix(rng, tier):
    """delivered asset x named asset x named amount x funds x receiver, per pair kind (C02)"""
    cases = []
    for rep in range({"quick": 1, "thorough": 3}[tier]):
        # bank denom 2 is spelled exactly like the address of a cw20 the pairs trade
        h = Hist(3, 3, 3, 3, 10 ** 12, 1000, [6, 6, 6], "directed-matrix", "C02 delivered x named matrix",
                 look=(2, 2 + rep % 2))
        created = setup_pairs(h, rng, [(("n", 0), ("n", 1)), (("n", 0), ("t", 2)), (("t", 2), ("t", 3))],
                              comm=3 * 10 ** 15, scale=10 ** 8, even=(rep == 0))
        # make the cw20/cw20 pool lopsided so that naming the other token would pay off
        u = USER0 + 1
        a = 500
        for p in created:
            assets = h.pair_assets(p)
            named_set = assets + [("t", 4), ("n", 1 if ("n", 1) not in assets else 0), ("n", 2)]
            for rcv in (None, h.users()[-1], p):
                for named in named_set:
                    for namt in (a, a - 1, a + 1, 0):
                        # execute path
                        # (the last one: the offered denom listed TWICE, the FIRST entry - the one the funds check reads - being
                        # wrong; C02-agent24: the last entry read instead.  The other order, first entry right, is accepted by the
                        # unchanged pair while the mock bank moves both entries: an artefact of the test runtime - a chain
                        # rejects coin lists that name a denom twice - which raised an alarm on the unchanged tree and was removed)
                        for f in ([], [(named[1], namt)] if named[0] == "n" else [(0, namt)],
                                  [(0, a)], [(0, a), (1, 3)]) + (([(0, a // 2), (0, a)],) if named == ("n", 0) and namt == a else ()):
                            if any(n <= 0 for _, n in f):
                                continue
                            h.do(("swap", p, u, f, named, namt, None, None, rcv))
                        # hook path: every token this user can deliver
                        for ta in (2, 3, 4):
                            h.do(("send", ta, u, p, a, ("hswap", named, namt, None, None, rcv)))
                        # rogue Receive
                        h.do(("pair_receive", p, u, [], u, a, ("hswap", named, namt, None, None, rcv)))
        # a Send whose payload is not a hook message but a whole Receive ENVELOPE of the pair's execute interface, written by the
        # trader: it names an amount (and a sender) of his choosing and carries a swap hook for that amount; the tokens
        # actually sent are 1 unit, the named amount, or more (C02-agent16: unknown payloads were retried as execute messages)
        for p in created:
            for off in h.pair_assets(p):
                if off[0] != "t":
                    continue
                for sent, named in ((1, a), (a, a), (a, 1), (a, 10 * a)):
                    for env_sender in (u, p):
                        h.do(("send", off[1], u, p, sent, ("hraw_precv", env_sender, named, off, named, None)))
        # valid swaps whose designated receiver is itself a contract of the system: the offered token, the other token, the
        # LP token, the factory, the router
        for p in created:
            assets = h.pair_assets(p)
            for off in assets:
                ask = assets[1] if off == assets[0] else assets[0]
                for rcv in [x[1] for x in assets if x[0] == "t"] + [h.pair_lp(p), FACTORY, ROUTER]:
                    if off[0] == "t":
                        h.do(("send", off[1], u, p, a, ("hswap", off, a, None, None, rcv)))
                    else:
                        h.do(("swap", p, u, [(off[1], a)], off, a, None, None, rcv))
        cases.append(h.finish())
    # dust offers on deep, balanced 18-decimals pools (inside the recorded rounding window: the pool pays out one unit for one
    # unit, no commission): whatever the pair reports as returned is what leaves the pool and what the receiver gets
    # (C02-agent22: a "the product must not shrink" guard paid one unit less than it reported, exactly in this window)
    hw = Hist(3, 2, 2, 2, 10 ** 21, 1000, [18, 18], "corpus", "settlement of dust swaps inside the rounding window")
    cw = setup_pairs(hw, rng, [(("n", 0), ("t", 2)), (("t", 2), ("t", 3))], comm=3 * 10 ** 15, provide=False, native_decs=[18, 18])
    for p in cw:
        a0, a1 = hw.pair_assets(p)
        hw.do(("provide", p, USER0, funds_for([(a0, 10 ** 19), (a1, 10 ** 19)]), a0, 10 ** 19, a1, 10 ** 19, None, None))
        for k, amt in enumerate((3, 1, 2, 1, 3)):
            off = (a0, a1)[k % 2]
            if off[0] == "n":
                hw.do(("swap", p, USER0 + 1, [(off[1], amt)], off, amt, None, None, USER0 + 2))
            else:
                hw.do(("send", off[1], USER0 + 1, p, amt, ("hswap", off, amt, None, None, USER0 + 2)))
    cases.append(hw.finish())
    return cases


def registry_histories(rng, tier, big=False):
    """creations and decimals registrations with up to 14 pairs, and (big) with 52 / 103 pairs (C16, C17)"""
    cases = []
    sizes = [1, 9, 10, 11, 12] if tier == "quick" else [1, 2, 5, 9, 10, 11, 12, 13, 14]
    if big:
        sizes += [52] if tier == "quick" else [31, 52, 103]
    for n in sizes:
        if n <= 14:
            # (the 12-pair registry has EIGHT cw20 tokens: contract addresses differ in how their canonical bytes sort against
            # the denoms - most mock addresses canonicalise to bytes starting with NUL, contract6..9 do not - so that native/cw20
            # pairs exist on both sides of that order; C19-agent19: stored key and cursor key sorted by different orders)
            nd_, nt_ = (6, 3) if n != 12 else (6, 8)
            h = Hist(2, nd_, nt_, 14, 10 ** 9, 1000, [6, 8, 18, 6, 6, 9, 12, 18][:nt_], "directed-grid", "registry with %d pairs" % n)
        else:
            # registries beyond every page size and batch size a walk might use: 11 / 15 assets give up to 55 / 105 pairs
            nd_, nt_ = (6, 5) if n <= 55 else (8, 7)
            h = Hist(1, nd_, nt_, n, 10 ** 9, 1000, [6, 8, 18, 6, 0, 12, 9][:nt_], "directed-grid", "registry with %d pairs" % n)
        owner = h.owner()
        for d in range(nd_):
            h.do(("fac_add_native", owner, d, 6))
        assets = [("n", d) for d in range(nd_)] + [("t", 2 + i) for i in range(nt_)]
        allp = [(a, b) for i, a in enumerate(assets) for b in assets[i + 1:]]
        rng.shuffle(allp)
        # make sure denom 0 is in many pairs, in both positions; and that there are cw20 / native pairs whose native denom sorts
        # BEFORE every contract address as a string (upper case) - printed order and raw-byte order of the two assets differ there
        allp.sort(key=lambda ab: 0 if (("n", 2) in ab and any(x[0] == "t" for x in ab)) else 1 if ("n", 0) in ab else 2)
        # one cw20 named in two spellings of its address (the same contract to the chain, different strings to the
        # factory's "same asset" guard), and a non-normalised spelling next to a different asset: never creatable
        tk = rng.choice([2, 3, 4])
        other = rng.choice([x for x in assets if x != ("t", tk)])
        for (x, y) in ((("t", tk), ("T", tk)), (("T", tk), ("t", tk)), (("T", tk), other), (other, ("T", tk))):
            h.do(("fac_create_pair", owner, x, y, [USER0], 0, 0, None, None))
        made = 0
        for (a, b) in allp:
            if made >= n:
                break
            if rng.random() < 0.5:
                a, b = b, a
            if n <= 14:
                # whitelists of any length (the message puts no bound on it; duplicates are stored as given): a record can be
                # hundreds of addresses long (C19-agent15: pages closed by a budget on the addresses they carry)
                wl_ = [USER0] if made % 4 != 2 else [[], [USER0, USER0 + 1] * 151, [USER0 + 1] * 40, [USER0] * 1001][(made // 4) % 4]
                h.do(("fac_create_pair", owner, a, b, wl_, rng.randrange(3), rng.randrange(3),
                      rng.choice([None, 0, 10 ** 16, D, D + 1]), rng.choice([None, 6, 18, 19])))
            else:   # a big registry needs (nearly) every candidate to be created
                h.do(("fac_create_pair", owner, a, b, [USER0], 0, 0, rng.choice([None, 0, 10 ** 16]), rng.choice([None, 6, 18])))
            made = len(h.pairs())
            if n > 14:
                continue        # the side attempts below are covered by the small registries
            if rng.random() < 0.3:
                h.do(("fac_create_pair", owner, b, a, [USER0], 0, 0, None, None))       # duplicate, other order
            if rng.random() < 0.15:
                h.do(("fac_create_pair", owner, a, a, [USER0], 0, 0, None, None))       # same asset
            if rng.random() < 0.15:
                h.do(("fac_create_pair", owner, a, ("t", 40), [USER0], 0, 0, None, None))   # not a cw20
            if rng.random() < 0.2:
                h.do(("fac_add_native", owner, rng.randrange(4), rng.choice([0, 6, 9, 18])))
            if rng.random() < 0.2:
                # the owner points the factory at another stored copy of the pair / LP-token code
                h.do(("fac_update_config", owner, None, rng.choice([8, 4, 12])))
            if rng.random() < 0.15 and h.pairs():
                h.do(("fac_migrate", owner, rng.choice(h.pairs()), rng.choice([0, 1, 2])))
        # directed: a creation naming a native denom, that denom registered again with OTHER decimals, then the very next
        # creation naming it in the same slot with another partner (C16-agent15: decimals memoised from the previous request)
        free = [(a, b) for (a, b) in allp if h.pair_for(a, b) is None and a[0] == "n"]
        if n == 1:          # only in the smallest registry: the others keep their sizes around the page limits
            for x in sorted({a for a, _ in free}):
                two = [ab for ab in free if ab[0] == x][:2]
                if len(two) == 2:
                    h.do(("fac_create_pair", owner, two[0][0], two[0][1], [USER0], 0, 0, None, None))
                    cur = h.snap[h.off_fac + 1 + x[1]] - 1
                    h.do(("fac_add_native", owner, x[1], cur + 3 if cur + 3 <= 18 else cur - 3))
                    h.do(("fac_create_pair", owner, two[1][0], two[1][1], [USER0], 0, 0, None, None))
                    break
        for L_ in (None, 1, 3, 30, 40):
            h.query("walk %s" % o_line(L_))
        # a code roll-out and an explicit migration before the final registrations, whatever the random choices were
        h.do(("fac_update_config", owner, None, 8))
        if h.pairs():
            h.do(("fac_migrate", owner, h.pairs()[0], 2))
        for d in ((0, 1, 2, 3, 4, 5, 0, 2) if n <= 14 else tuple(range(nd_)) + (0,)):
            # decimals are any u8: also values 20 and more away from every cw20's (at most 18)
            h.do(("fac_add_native", owner, d, rng.choice([0, 9, 12, 18, 26, 38, 255])))
            h.do(("fac_add_native", USER0 + 1, d, 3))
            if n <= 14:
                for L_ in (None, 1, 2):
                    h.query("walk %s" % o_line(L_))
        for L_ in (None, 1, 7):
            h.query("walk %s" % o_line(L_))
        cases.append(h.finish())
    # MANY registered denoms (more than any page size a listing might use), few pairs: the denoms the pairs trade sort after
    # thirty others; each is registered again, twice (C17-agent16: the registry of denoms read through a paged helper)
    nd_ = 36
    h = Hist(1, nd_, 2, 10, 10 ** 9, 1000, [6, 18], "directed-grid", "registry with %d native denoms" % nd_)
    owner = h.owner()
    for d in range(nd_):
        h.do(("fac_add_native", owner, d, 6 + d % 3))
    late = [0, 1, 3, 4, 5]          # uaura, ibc/..., uaurax, xuaura, uzzz: all sort after "UAURA" and "denom6".."denom35"
    cand = [(("n", late[i]), ("n", late[j])) for i in range(len(late)) for j in range(i + 1, len(late))][:4] + \
           [(("n", 4), ("t", 2)), (("t", 3), ("n", 5)), (("n", 20), ("t", 2)), (("n", 2), ("n", 0))] + \
           [(("n", 7), ("n", 8)), (("n", 10), ("n", 9))]     # {axl-usdc, weth} and {usdc-weth, axl}: alike when joined with "-" (C19-agent21)
    for (a, b) in cand:
        h.do(("fac_create_pair", owner, a, b, [USER0], 0, 0, None, None))
    for rnd in (0, 1):
        for d in late + [20, 2, 35]:
            h.do(("fac_add_native", owner, d, [9, 12][rnd] + d % 2))
        h.query("walk %s" % o_line(None))
        h.query("walk %s" % o_line(30))
        h.query("walk %s" % o_line(1))
    cases.append(h.finish())
    # a pair created with TWO whitelist entries gets its first provision; record and self-description are compared again
    # afterwards (C16-agent24: the pair trimmed its stored whitelist to the launcher on the first provision)
    h = Hist(2, 2, 1, 2, 10 ** 9, 1000, [6], "directed-grid", "registry record after the first provision")
    for d in (0, 1):
        h.do(("fac_add_native", h.owner(), d, 6))
    h.do(("fac_create_pair", h.owner(), ("n", 0), ("n", 1), [USER0 + 1, USER0], 0, 0, None, None))
    for q_ in h.pairs():
        h.do(("provide", q_, USER0, [(0, 5000), (1, 7000)], ("n", 0), 5000, ("n", 1), 7000, None, None))
        h.do(("provide", q_, USER0 + 1, [(0, 500), (1, 700)], ("n", 0), 500, ("n", 1), 700, None, None))
    h.query("walk %s" % o_line(None))
    cases.append(h.finish())
    # unregistered denom / denom the factory holds none of
    h = Hist(2, 3, 1, 2, 10 ** 9, 0, [6], "directed-grid", "factory holds no native balance")
    h.do(("fac_add_native", USER0, 0, 6))
    h.do(("fac_create_pair", USER0, ("n", 0), ("t", 2), [USER0], 0, 0, None, None))
    h.do(("bank", USER0, FACTORY, [(0, 1)]))
    h.do(("fac_add_native", USER0, 0, 6))
    h.do(("fac_create_pair", USER0, ("n", 0), ("n", 1), [USER0], 0, 0, None, None))
    h.do(("fac_create_pair", USER0, ("n", 0), ("t", 2), [USER0], 0, 0, None, None))
    cases.append(h.finish())
    return cases


def router_histories(rng, tier):
    """routes of 1..4 hops over a 4-asset world with all three pair kinds (C11, C13)"""
    cases = []
    for rep in range({"quick": 4, "thorough": 40}[tier]):
        ubal = pick_scale(rng) if rep % 4 != 1 else 10 ** 24
        h = Hist(4, 2, 2, 6, ubal, 1000, [6, 18], "random", "router routes")
        assets = [("n", 0), ("n", 1), ("t", 2), ("t", 3)]
        allp = [(a, b) for i, a in enumerate(assets) for b in assets[i + 1:]]
        # (the history with 10^24 balances gets deep, balanced pools whatever the seed draws, so that its 10^20 routes deliver more
        # than 10^18 units - C11-agent13 was caught only when the drawn pools happened to be deep)
        setup_pairs(h, rng, allp, comm=rng.choice([None, 0, 3 * 10 ** 15]), scale=(10 ** 23 if rep % 4 == 1 else None), even=(rep % 4 == 1))
        # directed: a native ROUND TRIP back to the sender (there and back through one pair) with minimums one unit above the
        # quote and equal to the amount paid in - the coins attached on entry must not count as received (C11-agent3)
        for N_, T_ in ((("n", 0), ("t", 2)), (("n", 1), ("n", 0))):
            u = USER0 + 3
            amount = max(1000, min(h.bank(u, N_[1]), h.reserves(h.pair_for(N_, T_))[0] // 50 if h.pair_for(N_, T_) else 1000))
            ops = [(N_, T_), (T_, N_)]
            for to_ in (None, u):
                quote = h.query("rsim %d %s" % (amount, ops_line(ops)))
                if quote:
                    for m in (quote[0] + 1, amount):
                        h.do(("router_ops", u, [(N_[1], amount)], ops, m, to_), quote)
        # directed: next to the offered coin the caller attaches a coin of the route's FINAL denom and is itself the recipient;
        # minimums of quote + that coin and quote + 1 must fail: what the caller sent in does not count as delivered
        # (C11-agent21: unused attached coins refunded before the hops and counted as proceeds)
        for ops, xd in (([(("n", 0), ("t", 2)), (("t", 2), ("n", 1))], 1), ([(("n", 1), ("n", 0))], 0)):
            u = USER0 + 3
            od = ops[0][0][1]
            amount = max(1000, min(h.bank(u, od) // 4, 10 ** 6 + 11))
            x = 3000
            if h.bank(u, xd) < x or h.bank(u, od) < amount:
                continue
            for dm in (x, 1, 0):
                quote = h.query("rsim %d %s" % (amount, ops_line(ops)))
                if quote:
                    h.do(("router_ops", u, sorted([(od, amount), (xd, x)]), ops, quote[0] + dm, None), quote)
        # directed, while the router is certainly empty: routes whose final asset is also spent by an earlier hop
        # (a cycle back to the input through distinct pairs; a 4-hop route ending on a middle asset), no minimum
        sh = list(assets)
        rng.shuffle(sh)
        A, B, C, E = sh
        for ops, to in (([(A, B), (B, C), (C, A)], None), ([(E, A), (A, B), (B, C), (C, A)], rng.choice(h.users())),
                        ([(A, B), (B, C), (C, E), (E, A)], rng.choice([None, USER0 + 1]))):
            u = rng.choice(h.users())
            amount = max(1, min(h.abal(ops[0][0], u), loguniform(rng, 1, 40)))
            quote = h.query("rsim %d %s" % (amount, ops_line(ops)))
            m = rng.choice([None, 0])
            if ops[0][0][0] == "n":
                h.do(("router_ops", u, [(ops[0][0][1], amount)], ops, m, to), quote)
            else:
                h.do(("send", ops[0][0][1], u, ROUTER, amount, ("hrouter", ops, m, to)), quote)
        if rep == 0:
            # a hop inside the recorded rounding window (KF-ceil-window: reserves 2e18/2e18, offer 1, the pool pays 1):
            # the router must still deliver exactly what it quotes, as a single hop and as the first of two
            hk = Hist(3, 2, 2, 3, 10 ** 20, 1000, [18, 18], "corpus", "route through a hop inside the recorded rounding window")
            ck = setup_pairs(hk, rng, [(("n", 0), ("t", 2)), (("t", 2), ("t", 3)), (("n", 0), ("n", 1))], comm=3 * 10 ** 15, provide=False,
                             native_decs=[18, 18])
            for q in ck:
                q0, q1 = hk.pair_assets(q)
                hk.do(("provide", q, USER0, funds_for([(q0, 2 * 10 ** 18), (q1, 2 * 10 ** 18)]), q0, 2 * 10 ** 18, q1, 2 * 10 ** 18, None, None))
            for kops, kto in (([(("n", 0), ("t", 2))], None), ([(("n", 0), ("t", 2)), (("t", 2), ("t", 3))], USER0 + 2),
                              ([(("n", 1), ("n", 0))], USER0 + 2)):
                for amt in (1, 2):
                    kq = hk.query("rsim %d %s" % (amt, ops_line(kops)))
                    hk.do(("router_ops", USER0 + 1, [(kops[0][0][1], amt)], kops, None, kto), kq)
            cases.append(hk.finish())
            # hops that take out a pool's WHOLE ask reserve (recorded finding KF-ceil-window, drain variant: a shallow pool hit by an
            # enormous offer pays its entire reserve): the router must still deliver exactly what it quotes, as a last hop and as
            # the hop that feeds the next one (C13-agent17: the pair paid min(return, reserve - 1), the quote did not)
            hd = Hist(3, 2, 2, 3, 10 ** 20, 1000, [18, 18], "corpus", "route through a hop that empties a shallow pool")
            cd_ = setup_pairs(hd, rng, [(("n", 0), ("t", 2)), (("t", 2), ("t", 3)), (("n", 1), ("t", 3))], comm=3 * 10 ** 15, provide=False,
                              native_decs=[18, 18])
            for q, dep in zip(cd_, (2, 100, 100)):
                q0, q1 = hd.pair_assets(q)
                hd.do(("provide", q, USER0, funds_for([(q0, dep), (q1, dep)]), q0, dep, q1, dep, None, None))
            for kops, kamt in (([(("n", 0), ("t", 2))], 5 * 10 ** 18), ([(("n", 1), ("t", 3)), (("t", 3), ("t", 2))], 10 ** 20 - 5 * 10 ** 18 - 7)):
                kq = hd.query("rsim %d %s" % (kamt, ops_line(kops)))
                hd.do(("router_ops", USER0 + 1, [(kops[0][0][1], kamt)], kops, None, USER0 + 2), kq)
            cases.append(hd.finish())
            # two LONG identifiers that differ in the middle only (IBC vouchers sharing their first 16 and last 8 characters):
            # a route with these two as dangling outputs, every branch funded, must be refused like any route with two outputs;
            # one-hop routes to each of them deliver the quote (C13-agent19: identifiers abbreviated when printed, and the
            # router's shape check keys on the printed form)
            hl = Hist(3, 7, 1, 2, 10 ** 12, 1000, [6], "corpus", "routes over look-alike long identifiers")
            cl = setup_pairs(hl, rng, [(("n", 0), ("n", 1)), (("n", 2), ("n", 6))], comm=3 * 10 ** 15, scale=10 ** 8, even=True,
                             native_decs=[6, 6, 6, 6, 6, 6, 6])
            for kops, kfunds in (([(("n", 0), ("n", 1)), (("n", 2), ("n", 6))], [(0, 100000), (2, 100000)]),
                                 ([(("n", 2), ("n", 6)), (("n", 0), ("n", 1))], [(0, 70000), (2, 50000)]),
                                 ([(("n", 0), ("n", 1))], [(0, 30000)]), ([(("n", 2), ("n", 6))], [(2, 30000)])):
                kq = hl.query("rsim %d %s" % (kfunds[0][1], ops_line(kops))) if len(kops) == 1 else None
                hl.do(("router_ops", USER0 + 1, kfunds, kops, None, USER0 + 2), kq)
            cases.append(hl.finish())
        # directed: the recipient is itself a participant of the route whose balance of the final asset FALLS during it
        # (a pool that sells the final asset in the first hop of a route that comes back to it; the router itself)
        for ops, to_kind in (([(A, B), (B, C), (C, B)], "pool0"), ([(B, C), (C, E), (E, B)], "router"),
                             ([(A, B), (B, E), (E, B)], "pool0")):
            u = rng.choice(h.users())
            amount = max(1, min(h.abal(ops[0][0], u), loguniform(rng, 10, 40)))
            quote = h.query("rsim %d %s" % (amount, ops_line(ops)))
            to = h.pair_for(*ops[0]) if to_kind == "pool0" else ROUTER
            for m in (1, (quote[0] // 2 if quote else 1) or 1):
                if ops[0][0][0] == "n":
                    h.do(("router_ops", u, [(ops[0][0][1], amount)], ops, m, to), quote)
                else:
                    h.do(("send", ops[0][0][1], u, ROUTER, amount, ("hrouter", ops, m, to)), quote)
        # directed: a route that crosses one pair TWICE IN THE SAME DIRECTION (around a triangle and on: T -> X -> Y -> T -> X).  The
        # router's own quote prices the second crossing against the untouched pool and over-estimates; with the quote as the
        # minimum the route must fail, with nothing it must deliver what the hops really pay (C11-agent17: the assertion
        # skipped on the hook entry when the up-front quote clears the minimum)
        for T_, X_, Y_ in ((("t", 2), ("n", 0), ("t", 3)), (("n", 1), ("t", 3), ("t", 2))):
            ops = [(T_, X_), (X_, Y_), (Y_, T_), (T_, X_)]
            u = USER0 + 1
            amount = max(1000, min(h.abal(T_, u), h.reserves(h.pair_for(T_, X_))[0] // 5 if h.pair_for(T_, X_) else 1000))
            for m_kind in ("quote", "quote-1", None):
                quote = h.query("rsim %d %s" % (amount, ops_line(ops)))
                m = None if m_kind is None or not quote else max(0, quote[0] - (1 if m_kind == "quote-1" else 0))
                if T_[0] == "n":
                    h.do(("router_ops", u, [(T_[1], amount)], ops, m, None), quote)
                else:
                    h.do(("send", T_[1], u, ROUTER, amount, ("hrouter", ops, m, None)), quote)
        # directed: LONG routes (five and six hops, back and forth through one pair and around the triangle) with a minimum far
        # above anything they can deliver, then with none: the minimum binds whatever the length (C11-agent19: the message list
        # truncated to five entries, dropping the assertion behind a five-hop route)
        for T_, X_, Y_ in ((("n", 0), ("t", 2), ("t", 3)),):
            for ops in ([(T_, X_), (X_, T_)] * 2 + [(T_, X_)], [(T_, X_), (X_, Y_), (Y_, T_)] * 2, [(T_, X_), (X_, T_)] * 3):
                u = USER0 + 2
                amount = max(1000, min(h.abal(T_, u), 10 ** 6 + 3))
                for m in (2 ** 100, None):
                    quote = h.query("rsim %d %s" % (amount, ops_line(ops)))
                    h.do(("router_ops", u, [(T_[1], amount)], ops, m, USER0 + 3), quote)
        # directed: the recipient is the LP token contract of the last hop's pair (and of the first hop's pair)
        for ops in ([(A, B), (B, C)], [(C, B)]):
            for which in (-1, 0):
                u = rng.choice(h.users())
                q_ = h.pair_for(*ops[which])
                if q_ is None:
                    continue
                amount = max(1, min(h.abal(ops[0][0], u), loguniform(rng, 10, 40)))
                quote = h.query("rsim %d %s" % (amount, ops_line(ops)))
                if ops[0][0][0] == "n":
                    h.do(("router_ops", u, [(ops[0][0][1], amount)], ops, None, h.pair_lp(q_)), quote)
                else:
                    h.do(("send", ops[0][0][1], u, ROUTER, amount, ("hrouter", ops, None, h.pair_lp(q_))), quote)
        # directed: outputs above 10^18 base units with minimums one, two, five units above the quote (and exactly the quote)
        if h.ubal >= 10 ** 24:
            for dm in (1, 2, 5, 0):
                u = rng.choice(h.users())
                ops = [(A, B)] if dm % 2 else [(A, B), (B, C)]
                amount = min(h.abal(A, u), 10 ** 20 + 12345)
                if amount <= 0:
                    continue
                quote = h.query("rsim %d %s" % (amount, ops_line(ops)))
                if not quote:
                    continue
                if A[0] == "n":
                    h.do(("router_ops", u, [(A[1], amount)], ops, quote[0] + dm, rng.choice([None, USER0 + 1])), quote)
                else:
                    h.do(("send", A[1], u, ROUTER, amount, ("hrouter", ops, quote[0] + dm, rng.choice([None, USER0 + 1]))), quote)
        # directed: minimums in the upper half of the 128-bit range (far above anything a route can deliver)
        for m in (2 ** 128 - 1, 2 ** 127 + 2 ** 126):
            u = rng.choice(h.users())
            ops = [(A, B), (B, C)]
            amount = max(1, min(h.abal(A, u), loguniform(rng, 10, 40)))
            quote = h.query("rsim %d %s" % (amount, ops_line(ops)))
            if A[0] == "n":
                h.do(("router_ops", u, [(A[1], amount)], ops, m, rng.choice([None, USER0 + 1])), quote)
            else:
                h.do(("send", A[1], u, ROUTER, amount, ("hrouter", ops, m, rng.choice([None, USER0 + 1]))), quote)
        # directed: a route whose hops are all funded (two native coins attached) but which is not a chain: the hop that
        # buys the first asset back comes before the hop that would feed it - two dangling outputs
        for ops, funds in (([(("n", 0), ("t", 2)), (("n", 1), ("n", 0)), (("t", 2), ("n", 1))], [(0, 50000), (1, 40000)]),
                           ([(("n", 1), ("t", 3)), (("n", 0), ("n", 1)), (("t", 3), ("n", 0))], [(0, 30000), (1, 60000)])):
            u = rng.choice(h.users())
            h.do(("router_ops", u, funds, ops, None, rng.choice([None, USER0 + 1])))
        # directed: three- and four-hop lists whose ONLY break is between the second and the third hop (two chains glued
        # together, every branch funded): two dangling outputs, must be refused (C13-agent23: a "plain chain" fast path that
        # examined the links pairwise in chunks and never looked at the link between hops two and three)
        for ops in ([(("n", 0), ("t", 2)), (("t", 2), ("t", 3)), (("n", 1), ("t", 2))],
                    [(("n", 0), ("t", 2)), (("t", 2), ("t", 3)), (("n", 1), ("t", 2)), (("t", 2), ("n", 0))],
                    [(("n", 1), ("t", 3)), (("t", 3), ("n", 0)), (("n", 0), ("t", 2))][:2] + [(("n", 0), ("t", 2))]):
            u = rng.choice(h.users())
            h.do(("router_ops", u, [(0, 40000), (1, 30000)], ops, None, rng.choice([None, USER0 + 1])))
        # directed: routes that pass the router's shape check without being a chain - one dangling output, plus a native hop
        # that neither the attached funds nor an earlier hop feeds
        for ops in ([(("n", 0), ("t", 2)), (("n", 1), ("t", 2))], [(("n", 1), ("t", 2)), (("n", 0), ("t", 2))],
                    [(("n", 0), ("t", 2)), (("n", 1), ("t", 3)), (("t", 2), ("t", 3))]):
            u = rng.choice(h.users())
            amount = max(1, min(h.abal(("n", 0), u), loguniform(rng, 10, 40)))
            quote = h.query("rsim %d %s" % (amount, ops_line(ops)))
            h.do(("router_ops", u, [(0, amount)], ops, None, rng.choice([None, USER0 + 1])), quote)
        n_steps = {"quick": 20, "thorough": 40}[tier]
        for step_i in range(n_steps):
            u = rng.choice(h.users())
            if rng.random() < 0.2:
                p = rng.choice(h.pairs())
                h.do(gen_swap(h, rng, p, rng.choice(h.users()), limits=False))    # another trader moves a pool
                continue
            ops = gen_route(h, rng, max_hops=4)
            shape = rng.random()
            if shape < 0.08:
                ops = []
            elif shape < 0.2:
                q = rng.choice(h.pairs())
                qa = h.pair_assets(q)
                ops = ops + [tuple(qa)]
            elif shape < 0.28:
                ops = ops + [ops[0]]                     # repeated pair
            elif shape < 0.45 and len(ops) >= 2 and h.pair_for(ops[-1][1], ops[0][0]) is not None \
                    and h.pair_for(ops[-1][1], ops[0][0]) not in [h.pair_for(o, a) for o, a in ops]:
                ops = ops + [(ops[-1][1], ops[0][0])]    # a cycle back to the input asset through a fresh pair
            round_trip = False
            if ops and rng.random() < 0.15:
                ops = [ops[0], (ops[0][1], ops[0][0])]      # there and back through the same pair
                round_trip = True
            offer = ops[0][0] if ops else ("n", 0)
            amount = max(1, min(h.abal(offer, u), loguniform(rng, 1, 50)))
            quote = h.query("rsim %d %s" % (amount, ops_line(ops))) if ops else None
            if ops and rng.random() < 0.7:
                ask_amt = max(1, (quote[0] if quote else amount) // rng.choice([1, 2, 10]))
                h.query("rrevsim %d %s" % (ask_amt, ops_line(ops)))
                h.compose_queries(ask_amt, ops, True)
            if ops and rng.random() < 0.5:
                h.compose_queries(amount, ops, False)
            m = None
            if quote is not None and rng.random() < 0.8:
                m = max(0, quote[0] + rng.choice([-1, -1, 0, 0, 0, 1, -quote[0], -(quote[0] // 2), 2 ** 127 - quote[0]]))
            elif rng.random() < 0.3:
                m = rng.choice([0, 1, 2 ** 127, 2 ** 128 - 1, 2 ** 127 + 2 ** 126, 2 ** 127 + 10 ** 30])
            to = rng.choice([None, None, rng.choice(h.users()), u])
            if ops and rng.random() < 0.15:
                rp_ = [q for q in (h.pair_for(o, a) for o, a in ops) if q is not None]
                # the router, a pool of the route, or the LP token contract of one of its pools (an ordinary account to the
                # bank and the cw20s, but one the pair itself knows about)
                to = rng.choice([ROUTER] + rp_ + [h.pair_lp(q) for q in rp_])
            if ops and rng.random() < 0.35:
                # a recipient who already holds more of the final asset than the sender, minimum just above the quote
                tgt = ops[-1][1]
                rich = max(h.users(), key=lambda x: h.abal(tgt, x))
                if rich != u and quote is not None:
                    to, m = rich, quote[0] + rng.choice([1, 1, 2, 0])
            if (round_trip or (ops and ops[-1][1] == ops[0][0])) and quote is not None and rng.random() < 0.8:
                # a round trip back to the input asset, delivered to the sender: "no loss" style minimums
                to = rng.choice([None, u])
                m = rng.choice([amount, quote[0] + 1, quote[0], (quote[0] + amount) // 2 + 1])
            if rng.random() < 0.15 and rep % 2 == 1 and 2 * step_i >= n_steps:   # the router is not empty (late, and in half of the histories)
                d = rng.choice(assets)
                h.do(("bank", USER0, ROUTER, [(d[1], 5)]) if d[0] == "n" else ("transfer", d[1], USER0, ROUTER, 5))
            if offer[0] == "n":
                h.do(("router_ops", u, [(offer[1], amount)], ops, m, to), quote)
            else:
                h.do(("send", offer[1], u, ROUTER, amount, ("hrouter", ops, m, to)), quote)
        # directed, late: the router holds (or is handed, next to the input) a few units of a native coin that is NOT an asset of
        # the route; the route must be unaffected - every hop swaps the router's balance of ITS offer asset, the recipient gets
        # the quote, the unrelated coin stays where it is (C13-agent15: the hop amount was read from the first coin of the
        # router's whole bank balance, i.e. from whichever denom sorts first)
        for X, Y in ((1, 0), (0, 1)):
            routes = [r for r in ([(("n", Y), ("t", 2))], [(("n", Y), ("t", 2)), (("t", 2), ("t", 3))], [(("n", Y), ("t", 3))])]
            u = USER0 + 2
            for k, ops in enumerate(routes):
                amount = max(1, min(h.bank(u, Y), 10 ** 5 + 13 * k))
                if h.bank(u, Y) < amount or h.bank(u, X) < 10:
                    continue
                if k == 0:
                    h.do(("bank", u, ROUTER, [(X, 3)]))                      # donated beforehand
                quote = h.query("rsim %d %s" % (amount, ops_line(ops)))
                funds = [(Y, amount)] if k != 2 else sorted([(Y, amount), (X, 4)])   # or attached to the call itself
                h.do(("router_ops", u, funds, ops, None, USER0 + 3), quote)
        # directed, last (the router is no longer empty afterwards): the router ALREADY HOLDS some of the final asset (a donation)
        # and is itself the recipient; minimums inside (output, output + stray] must fail - the recipient's balance has to GROW
        # by the minimum, what it held before does not count (C11-agent11 was caught only by luck of the random steps)
        for ops in ([(A, B), (B, C)], [(B, A)]):
            tgt = ops[-1][1]
            stray = 5
            h.do(("bank", USER0, ROUTER, [(tgt[1], stray)]) if tgt[0] == "n" else ("transfer", tgt[1], USER0, ROUTER, stray))
            u = USER0 + 1
            amount = max(1, min(h.abal(ops[0][0], u), 10 ** 6 + 7))
            for dm in (stray, 1, 0):
                quote = h.query("rsim %d %s" % (amount, ops_line(ops)))
                if not quote:
                    continue
                if ops[0][0][0] == "n":
                    h.do(("router_ops", u, [(ops[0][0][1], amount)], ops, quote[0] + dm, ROUTER), quote)
                else:
                    h.do(("send", ops[0][0][1], u, ROUTER, amount, ("hrouter", ops, quote[0] + dm, ROUTER)), quote)
        # a dust offer whose first hop quotes ZERO, followed by a hop through a pair that does not exist: the router's quote is
        # the composition of the pair quotes, refusals included (C12-agent25: the walk cut short with Ok(0) at a zero hop)
        for (X_, Y_) in ((A, B), (B, A), (C, E), (E, C)):
            q_ = h.pair_for(X_, Y_)
            if q_ is None:
                continue
            rx, ry = h.abal(X_, q_), h.abal(Y_, q_)
            if ry > 0 and rx > 3 * ry:
                ops = [(X_, Y_), (Y_, ("t", 40))]
                h.query("rsim 1 %s" % ops_line(ops))
                h.compose_queries(1, ops, False)
                break
        # last of all: the router holds some of a route's MIDDLE asset; its forward quote is still the hop-by-hop composition of
        # the pair quotes (C12-agent8: the router's own holdings added to the carried amount of later hops)
        h.do(("bank", USER0, ROUTER, [(B[1], 777)]) if B[0] == "n" else ("transfer", B[1], USER0, ROUTER, 777))
        for ops in ([(A, B), (B, C)], [(C, B), (B, A)]):
            amt_ = 10 ** 5 + 1
            h.query("rsim %d %s" % (amt_, ops_line(ops)))
            h.compose_queries(amt_, ops, False)
        cases.append(h.finish())
    return cases


def guard_histories(rng, tier):
    """swaps with belief price / max spread on pairs of mixed decimals; provisions with tolerance after
    another actor moved the ratio (system level of C10, C15)"""
    cases = []
    # pools with an extreme raw ratio on pairs whose two assets have DIFFERENT decimals (the abundant asset being the one with
    # fewer decimals, and the other way round): provisions that are grossly outside the tolerance in one direction only
    for (d_nat, d_tok) in ((6, 8), (6, 18), (18, 6)) if tier == "thorough" else ((6, 8), (18, 6)):
        h = Hist(3, 2, 2, 2, 10 ** 26, 1000, [d_tok, d_tok], "directed-boundary", "slippage guard on an extreme pool, decimals %d/%d" % (d_nat, d_tok))
        created = setup_pairs(h, rng, [(("n", 0), ("t", 2)), (("t", 3), ("n", 1))], comm=3 * 10 ** 15, provide=False, native_decs=[d_nat, d_nat])
        for p in created:
            a0, a1 = h.pair_assets(p)
            big, small = 10 ** 20, 1000
            n0, n1 = (big, small) if a0[0] == "n" else (small, big)
            h.do(("provide", p, USER0, funds_for([(a0, n0), (a1, n1)]), a0, n0, a1, n1, None, None))
            for mult in (5, 2, 1):
                for tol in (10 ** 16, 5 * 10 ** 17, None):
                    m0, m1 = (n0, n1 * mult) if a0[0] == "n" else (n0 * mult, n1)
                    h.do(("provide", p, USER0 + 1, funds_for([(a0, m0), (a1, m1)]), a0, m0, a1, m1, tol, None))
        cases.append(h.finish())
    # top-ups that are tiny against deep, balanced pools (deposit/reserve below 10^-16): the two deposit/reserve fractions are
    # indistinguishable at 18 digits, the price the deposits imply is not (C15-agent14: the side to check was picked by
    # comparing the truncated fractions, ties going to the first asset)
    h = Hist(3, 2, 2, 3, 10 ** 27, 1000, [6, 18], "directed-boundary", "slippage guard: dust top-ups of deep pools")
    created = setup_pairs(h, rng, [(("n", 0), ("n", 1)), (("n", 0), ("t", 2)), (("t", 2), ("t", 3))], comm=3 * 10 ** 15, provide=False, native_decs=[6, 6])
    for j, p in enumerate(created):
        a0, a1 = h.pair_assets(p)
        n0, n1 = [(10 ** 20, 10 ** 20), (10 ** 24, 10 ** 22), (3 * 10 ** 19, 7 * 10 ** 21)][j % 3]
        f = 10 ** 6                    # the first provision multiplies the two deposits in u128: start smaller, then top up
        h.do(("provide", p, USER0, funds_for([(a0, n0 // f), (a1, n1 // f)]), a0, n0 // f, a1, n1 // f, None, None))
        h.do(("provide", p, USER0, funds_for([(a0, n0 - n0 // f), (a1, n1 - n1 // f)]), a0, n0 - n0 // f, a1, n1 - n1 // f, None, None))
        for (m0, m1) in ((1005, 1099), (1099, 1005), (1000, 5000), (5000, 1000), (1000, 1001), (7, 9), (1, 2), (2, 1), (1, 1)):
            # scale the second deposit to the pool's ratio so that the pair (m0, m1) expresses the imbalance only
            e0, e1 = m0 * max(1, n0 // n1), m1 * max(1, n1 // n0)
            for tol in (5 * 10 ** 16, 10 ** 16, None) if tier == "quick" else (5 * 10 ** 16, 10 ** 16, 5 * 10 ** 17, 10 ** 15, None):
                u = USER0 + 1
                h.do(("provide", p, u, funds_for([(a0, e0), (a1, e1)]), a0, e0, a1, e1, tol, None))
                h.do(("provide", p, u, funds_for([(a1, e1), (a0, e0)]), a1, e1, a0, e0, tol, None))
    cases.append(h.finish())
    for rep in range({"quick": 3, "thorough": 30}[tier]):
        h = Hist(3, 2, 2, 3, 10 ** 24, 1000, [rng.choice([0, 6, 18]), rng.choice([6, 18])], "directed-boundary", "guards at system level")
        created = setup_pairs(h, rng, [(("n", 0), ("t", 2)), (("t", 2), ("t", 3)), (("n", 0), ("n", 1))], comm=3 * 10 ** 15)
        # dust offers on a lopsided pool: the pool pays out 0 with spread 0, while the belief price (decimals-normalised)
        # promises at least 2 units; with a spread limit below 1 such a swap must be refused by the guard
        for p in created[rep % 3:rep % 3 + 2]:
            a0, a1 = h.pair_assets(p)
            r0, r1 = h.reserves(p)
            if r1 > 0 and r0 < 1000 * r1:
                n = min(1000 * r1 - r0, h.abal(a0, USER0 + 2))
                if n > 0:
                    h.do(("bank", USER0 + 2, p, [(a0[1], n)]) if a0[0] == "n" else ("transfer", a0[1], USER0 + 2, p, n))
            r0, r1 = h.reserves(p)
            if r1 == 0 or r0 < 10 * r1:
                continue
            amount = max(1, (r0 // r1) * 9 // 10)
            od, rd = h.pair(p, 5), h.pair(p, 6)
            onorm = amount * 10 ** (rd - od) if rd > od else amount
            u = USER0 + 1
            h.query("sim %d %s %d" % (p, a_line(a0), amount))
            bp3 = min(max(1, onorm * D // 3), 2 ** 127)      # a cosmwasm Decimal holds 128 bits
            for bp, ms in ((bp3, D // 10), (bp3, D - 1), (None, D // 10), (bp3, None)):
                if a0[0] == "n":
                    h.do(("swap", p, u, [(a0[1], amount)], a0, amount, bp, ms, None))
                else:
                    h.do(("send", a0[1], u, p, amount, ("hswap", a0, amount, bp, ms, None)))
        # trades as large as the offer reserve and larger: the spread takes more than half of the ideal return; with only a
        # spread limit given, any limit at or above the actual ratio must let the swap through
        for p in created[(rep + 1) % 3:(rep + 1) % 3 + 2]:
            for i in (0, 1):
                offer = h.pair_assets(p)[i]
                for mult in (3, 1):
                    r = h.reserves(p)          # the reserves NOW: earlier swaps of this block have deepened the offer side
                    amount = min(h.abal(offer, USER0 + 2), r[i] * mult + 1)
                    if amount <= 0 or r[i] == 0:
                        continue
                    # the limits that must REFUSE come first and every limit is placed against a fresh quote: an accepted swap
                    # deepens the pool, after which the same offer has a smaller ratio and a stale "just below" limit is
                    # legitimately met (found through C10-agent16: the refusing case of this block never refused)
                    for kind in ("below", "far-below", "above", "mid", "one"):
                        q = h.query("sim %d %s %d" % (p, a_line(offer), amount))
                        if not q or q[0] + q[1] == 0:
                            continue
                        ratio = q[1] * D // (q[0] + q[1])
                        # "far-below": between the ratio a guard would see if the spread were capped by the ask reserve and
                        # the true ratio
                        ms = {"below": max(0, ratio - 1), "far-below": ratio - ratio // 20, "above": ratio + 1,
                              "mid": (ratio + D) // 2, "one": D}[kind]
                        if kind in ("mid", "one") and mult == 3:
                            continue            # one accepted swap of three times the reserve is enough
                        if offer[0] == "n":
                            h.do(("swap", p, USER0 + 2, [(offer[1], amount)], offer, amount, None, ms, None))
                        else:
                            h.do(("send", offer[1], USER0 + 2, p, amount, ("hswap", offer, amount, None, ms, None)))
        for _ in range({"quick": 30, "thorough": 50}[tier]):
            p = rng.choice(h.pairs())
            u = rng.choice(h.users())
            if rng.random() < 0.6:
                o = gen_swap(h, rng, p, u)
                assets = h.pair_assets(p)
                if o[0] == "swap":
                    offer, amount = o[4], o[5]
                else:
                    offer, amount = o[5][1], o[5][2]
                if offer in assets:
                    q = h.query("sim %d %s %d" % (p, a_line(offer), amount))
                    if q and q[0] > 0:
                        # belief price at the executed price, spread limit right at / next to the actual spread
                        bp = min(amount * D // q[0], 2 ** 128 - 3)
                        ms = rng.choice([0, 1, 10 ** 15, q[1] * D // max(1, q[0] + q[1]), q[1] * D // max(1, q[0] + q[1]) + 1])
                        if o[0] == "swap":
                            o = o[:6] + (rng.choice([bp, bp - 1, bp + 1, None]), ms) + o[8:]
                        else:
                            hk = o[5]
                            o = o[:5] + (hk[:3] + (rng.choice([bp, bp - 1, bp + 1, None]), ms) + hk[5:],)
                h.do(o)
            else:
                h.do(gen_provide(h, rng, p, u))
        # directed, last: the factory owner registers each native denom AGAIN with other decimals; afterwards the guard must
        # normalise with the NEW decimals (C10-agent14: a second copy of the decimals, saved at instantiate, went stale).
        # Belief prices at, 100x above and 100x below the executed price (in the new normalisation), spread limit 1%: the
        # decision differs between the old and the new decimals in one direction or the other.
        owner = h.owner()
        for d in range(h.nd):
            old = h.snap[h.off_fac + 1 + d] - 1 if h.snap[h.off_fac + 1 + d] > 0 else 6
            newdec = old + 2 if old + 2 <= 18 and (rep + d) % 2 == 0 else max(0, old - 2) if old >= 2 else old + 2
            h.do(("fac_add_native", owner, d, newdec))
        for p in h.pairs():
            assets = h.pair_assets(p)
            if not any(a[0] == "n" for a in assets):
                continue
            for i in (0, 1):
                offer = assets[i]
                u = USER0 + 1 + i
                r = h.reserves(p)
                amount = min(h.abal(offer, u), max(1, r[i] // 1000) + 3)
                if amount <= 0:
                    continue
                q = h.query("sim %d %s %d" % (p, a_line(offer), amount))
                if not q or q[0] == 0:
                    continue
                od, rd = h.pair(p, 5 + i), h.pair(p, 6 - i)
                onorm = amount * 10 ** (rd - od) if rd > od else amount
                rnorm = q[0] * 10 ** (od - rd) if od > rd else q[0]
                price = onorm * D // rnorm
                for bp in (price, price * 100, max(1, price // 100), price * 10 ** 4, max(1, price // 10 ** 4)):
                    bp = min(bp, 2 ** 128 - 3)
                    if offer[0] == "n":
                        h.do(("swap", p, u, [(offer[1], amount)], offer, amount, bp, D // 100, None))
                    else:
                        h.do(("send", offer[1], u, p, amount, ("hswap", offer, amount, bp, D // 100, None)))
        cases.append(h.finish())
    return cases
