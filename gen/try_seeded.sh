#!/bin/bash
# gen/try_seeded.sh <patch.diff> <Cxx> [Cyy ...]   apply a seeded change to /repo, run the checks, undo it straight afterwards
# With HT_REPO set (a snapshot of /repo, e.g. $VP_RUN_REPO inside `vp run --with-repo`) the patch goes to the snapshot and
# the checks are pointed at it, so /repo stays free.
P=$1; shift
R=${HT_REPO:-/repo}
V=$(cd "$(dirname "$0")/.." && pwd)
cd "$R" || exit 2
if ! git diff --quiet; then echo "$R has uncommitted changes; refusing"; exit 2; fi
git apply "$P" || { echo "patch does not apply"; exit 2; }
trap "git -C $R checkout -- . " EXIT
cd "$V"
export HT_EVIDENCE_DIR=$V/build/evidence_seeded   # trials never overwrite the evidence of the unchanged tree
for c in "$@"; do
  out=$(VERIF_SEED=${VERIF_SEED:-20260930} ./check $c --tier ${TIER:-quick} 2>/dev/null | grep -v KNOWN-FINDING | tail -2 | tr '\n' ' ')
  fam=$(echo "$out" | grep -o 'replay=[^ ]*' | head -1 | cut -d= -f2 | xargs -r python3 -c 'import json,sys; j=json.load(open(sys.argv[1])); print("family=%s phase=%s" % (j.get("family"), j.get("phase")))' 2>/dev/null)
  echo "$c: $out $fam"
done
