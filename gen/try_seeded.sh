#!/bin/bash
# gen/try_seeded.sh <patch.diff> <Cxx> [Cyy ...]   apply a seeded change to /repo, run the checks, undo it straight afterwards
P=$1; shift
cd /repo || exit 2
if ! git diff --quiet; then echo "/repo has uncommitted changes; refusing"; exit 2; fi
git apply "$P" || { echo "patch does not apply"; exit 2; }
trap 'git -C /repo checkout -- . ' EXIT
cd /verif
for c in "$@"; do
  out=$(VERIF_SEED=${VERIF_SEED:-20260930} ./check $c --tier ${TIER:-quick} 2>/dev/null | grep -v KNOWN-FINDING | tail -2 | tr '\n' ' ')
  echo "$c: $out"
done
