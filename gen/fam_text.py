"""Case generators for text / JSON / width conversions of Uint256 and Decimal256."""
import itertools
from fw import Case, hexs
from numgen import D, W64, W128, W256, grid256, grid128, rand_limbs, loguniform


def values(rng, tier):
    g = set(grid256())
    # every combination of four 64-bit limbs drawn from {0, 1, 10^18, 2^64-1}: zero limbs above, between and below non-zero
    # ones, upper limbs that are multiples of 10^18 (where limb-wise short division by 10^18 leaves no remainder) - the
    # patterns on which hand-written limb loops with early exits go wrong (C18-agent16: Display dropped the limbs below a
    # zero limb); plus a few multiples k*10^18 in the upper limbs over a non-zero low part
    for limbs in itertools.product((0, 1, D, W64 - 1), repeat=4):
        g.add(limbs[0] | (limbs[1] << 64) | (limbs[2] << 128) | (limbs[3] << 192))
    for k in (2, 7, 18):
        for sh in (128, 192):
            for low in (1, D // 2, W64, W128 - 1):
                if sh == 192 or low < W128:
                    g.add(((k * D) << sh) + low)
    n = 40 if tier == "quick" else 600
    for _ in range(n):
        a = rng.choice([1, 7, 12345, loguniform(rng, 1, 190)])
        k = rng.randrange(0, 60)
        b = rng.choice([0, 1, 5 * 10 ** 17, 10 ** 17, 10 ** 16 + 1, 123000000000000000, 999999999999999999, rng.randrange(D)])
        v = a * 10 ** k + b
        if v < W256:
            g.add(v)
        g.add(rand_limbs(rng))
        # leading / trailing fractional zeros
        f = rng.randrange(1, 10 ** rng.randrange(1, 18)) * 10 ** rng.randrange(0, 5)
        g.add((rng.randrange(1000) * D + f % D) % W256)
    return sorted(g)


def str_case(op, s, stream):
    return Case(op, [s], [("%s %s" % (op, hexs(s)), "n")], stream)


def text_cases(rng, tier):
    cases = []
    for v in values(rng, tier):
        cases.append(Case("u_roundtrip", [v], [("u_display %d" % v, "s"), ("u_rt_back %d" % v, "n"),
                                               ("u_json %d" % v, "s"), ("u_rt_json %d" % v, "n")], "directed-grid"))
        cases.append(Case("d_roundtrip", [v], [("d_display %d" % v, "s"), ("d_rt_back %d" % v, "n"),
                                               ("d_json %d" % v, "s"), ("d_rt_json %d" % v, "n")], "directed-grid"))
        cases.append(Case("u_display", [v], [("u_display %d" % v, "s")], "directed-grid"))
        cases.append(Case("u_string", [v], [("u_string %d" % v, "s")], "directed-grid"))
        cases.append(Case("d_display", [v], [("d_display %d" % v, "s")], "directed-grid"))
        cases.append(Case("d_to_cwdec", [v], [("d_to_cwdec %d" % v, "n")], "directed-grid"))
        if v < W128:
            cases.append(Case("d_from_cwdec", [v], [("d_from_cwdec %d" % v, "n")], "directed-grid"))
    return cases


def parse_cases(rng, tier):
    cases = []
    maxlen = 5 if tier == "quick" else 7
    alpha = b"019."
    strs = [b""]
    for k in range(1, maxlen + 1):
        strs += [bytes(s) for s in itertools.product(alpha, repeat=k)]
    for s in strs:
        cases.append(str_case("d_fromstr", s, "exhaustive-small"))
    for s in (strs if tier == "thorough" else strs[:400]):
        if b"." not in s or len(s) <= 3:
            cases.append(str_case("u_fromstr", s, "exhaustive-small"))
    # around the 18-digit fraction limit, the 2^256 limits, foreign bytes
    m = str(W256 - 1).encode()
    md = str((W256 - 1) // D).encode()
    special = [m, str(W256).encode(), str(W256 + 1).encode(), b"0" + m, b"00000" + m, m + b"0", md, str((W256 - 1) // D + 1).encode(),
               md + b".584007913129639935", md + b".584007913129639936", md + b".6", md + b".9999999999999999999",
               b"1." + b"0" * 18, b"1." + b"0" * 19, b"1." + b"1" * 18, b"1." + b"1" * 19, b"." + b"9" * 18, b"0." + b"0" * 17 + b"1",
               b"1.5", b"01.50", b"1..5", b"1.5.", b".", b"..", b"", b" 1", b"1 ", b"+1", b"-1", b"1e5", b"0x10", b"1,5", b"1_000",
               b"\xd9\xa1", b"1.\xd9\xa1", str(W256).encode() + b".5", b"5." + str(W256).encode(), b"9" * 100, b"9" * 78, b"1" + b"0" * 77,
               b"1" + b"0" * 78, b"0" * 200 + b"7", b"123456789012345678901234567890.123456789012345678"]
    # every string up to length 4 over digits, the dot and the characters integer parsers of other libraries accept
    # (signs, exponent marker, blank, digit separator); and one such character inserted at / substituted for every
    # position of longer numerals
    wide = b"05.+-e _"
    for k in range(1, 5 if tier == "thorough" else 4):
        for t in itertools.product(wide, repeat=k):
            t = bytes(t)
            if any(c in b"+-e _" for c in t):
                cases.append(str_case("d_fromstr", t, "exhaustive-small"))
                if k <= 3:
                    cases.append(str_case("u_fromstr", t, "exhaustive-small"))
    for base in (b"12.345", b"0.3", b"1.05", b"7", b"100.000000000000000001", b"115792089237316195423570985008687907853269984665640564039457.5"):
        for i in range(len(base) + 1):
            for ch in (b"+", b"-", b"e", b" ", b"_"):
                for t in (base[:i] + ch + base[i:], base[:i] + ch + base[i + 1:]):
                    cases.append(str_case("d_fromstr", t, "directed-boundary"))
                    if b"." not in t:
                        cases.append(str_case("u_fromstr", t, "directed-boundary"))
    # very long fractional parts that are almost all zeros (so that the digits themselves still fit 256 bits): lengths
    # around the first multiples of 256, where a narrowed length counter would wrap back under 18 (lengths near 2^16 are
    # beyond what a generated Coq literal can hold)
    for L in list(range(17, 22)) + list(range(250, 280)) + list(range(508, 534)):
        for whole in (b"0", b"3"):
            for last in (b"5", b"0"):
                t = whole + b"." + b"0" * (L - 1) + last
                cases.append(str_case("d_fromstr", t, "directed-boundary"))
    for s in special:
        cases.append(str_case("d_fromstr", s, "directed-boundary"))
        cases.append(str_case("u_fromstr", s, "directed-boundary"))
        cases.append(str_case("u_tryfrom", s, "directed-boundary"))
    for _ in range(60 if tier == "quick" else 1500):
        w = b"".join(rng.choice([b"0", b"1", b"5", b"9"]) for _ in range(rng.randrange(0, 100)))
        f = b"".join(rng.choice([b"0", b"1", b"5", b"9"]) for _ in range(rng.randrange(0, 22)))
        s = w + (b"." + f if rng.random() < 0.7 else b"")
        if rng.random() < 0.1:
            i = rng.randrange(len(s) + 1)
            s = s[:i] + rng.choice([b"a", b" ", b"-", b".", b"\x00", b"/", b":"]) + s[i:]
        cases.append(str_case("d_fromstr", s, "random"))
        cases.append(str_case("u_fromstr", s, "random"))
    # JSON decoding of quoted clean strings and a few malformed documents
    for s in rng.sample(strs, 80) + special[:20]:
        if b'"' in s or b"\\" in s or any(c < 0x20 or c > 0x7e for c in s):
            continue
        j = b'"' + s + b'"'
        cases.append(Case("u_unjson", [j], [("u_unjson %s" % hexs(j), "n")], "directed-grid"))
        cases.append(Case("d_unjson", [j], [("d_unjson %s" % hexs(j), "n")], "directed-grid"))
    # the same numerals in other JSON spellings (RFC 8259: any character may be written as \uXXXX, upper or lower case hex;
    # the solidus may be escaped): equal strings, so they must decode to the same value or be refused alike; plus escapes
    # that denote other characters, malformed escapes, and escapes of non-ASCII code points (C18-agent18: decoding through
    # a borrowed &str refuses every document that contains an escape)
    def esc(b, upper=False):
        h = "%04x" % b
        return ("\\u" + (h.upper() if upper else h)).encode()
    numerals = [b"0", b"1", b"12", b"0.003", b"1.5", b"340282366920938463463374607431768211456", b"115792089237316195423570985008687907853269984665640564039457.584007913129639935",
                b"007", b"1.", b".5", b"", b"1.0000000000000000001", str(W256).encode()] + rng.sample(strs, 12)
    for s in numerals:
        if any(c < 0x20 or c > 0x7e or c in b'"\\' for c in s):
            continue
        spellings = [b"".join(esc(c) for c in s), b"".join(esc(c, True) if i % 2 else bytes([c]) for i, c in enumerate(s)),
                     b"".join(esc(c) if c == 0x2e else bytes([c]) for c in s), esc(s[0]) + s[1:] if s else b"", s[:-1] + esc(s[-1], True) if s else b""]
        for sp in spellings:
            j = b'"' + sp + b'"'
            cases.append(Case("u_unjson", [j], [("u_unjson %s" % hexs(j), "n")], "directed-grid"))
            cases.append(Case("d_unjson", [j], [("d_unjson %s" % hexs(j), "n")], "directed-grid"))
    for body in (b"1\\u0032", b"\\u0031\\u002E5", b"1\\/2", b"\\u00312", b"1\\u003", b"1\\u00g1", b"1\\x31", b"1\\", b"\\u0661", b"1\\u00e9", b"\\ud83d\\ude00", b"\\ud83d",
                 b"1\\n", b"1\\t2", b"\\\\1", b"\\\"1", b"1\\u0000", b"1\\u0020", b" 1", b"1 ", b"+1", b"\\u002b1", b"\\u002d1", b"1e3", b"1\\u00652"):
        j = b'"' + body + b'"'
        cases.append(Case("u_unjson", [j], [("u_unjson %s" % hexs(j), "n")], "malformed"))
        cases.append(Case("d_unjson", [j], [("d_unjson %s" % hexs(j), "n")], "malformed"))
    for j in (b"12", b"1.5", b'"12', b'12"', b"", b"null", b"[]"):
        cases.append(Case("u_unjson", [j], [("u_unjson %s" % hexs(j), "n")], "malformed"))
        cases.append(Case("d_unjson", [j], [("d_unjson %s" % hexs(j), "n")], "malformed"))
    return cases


def width_cases(rng, tier):
    cases = []
    for v in grid256():
        cases.append(Case("u_to_u128", [v], [("u_to_u128 %d" % v, "n")], "directed-grid"))
        cases.append(Case("u_to_uint128", [v], [("u_to_uint128 %d" % v, "n")], "directed-grid"))
    for v in grid128() + [rand_limbs(rng, 2) for _ in range(40)]:
        cases.append(Case("u_from_u128", [v], [("u_from_u128 %d" % v, "nl")], "directed-grid"))
        cases.append(Case("u_from_uint128", [v], [("u_from_uint128 %d" % v, "nl")], "directed-grid"))
    for v in [0, 1, W64 - 1, 1 << 63, 12345]:
        cases.append(Case("u_from_u64", [v], [("u_from_u64 %d" % v, "nl")], "directed-grid"))
    return cases
