#!/usr/bin/env python3
"""gen/addprop.py <Cxx> <NewName> <ProofsFile> <lemma> : append a pinned, exact-only copy of a proved lemma's statement to
Props/<Cxx>.v (development aid; the statement is copied verbatim so the property file pins it)."""
import re, sys, os
ROOT = os.path.dirname(os.path.dirname(os.path.abspath(__file__)))
cxx, new, pf, lemma = sys.argv[1:5]
src = open(os.path.join(ROOT, "coq/theories/Proofs", pf + ".v")).read()
m = re.search(r"(?:Theorem|Lemma|Corollary|Example)\s+%s(?![A-Za-z0-9_'])\s*(.*?)\nProof\." % re.escape(lemma), src, re.S)
if not m:
    sys.exit("lemma not found: " + lemma)
stmt = m.group(1).rstrip()
assert stmt.endswith(".")
p = os.path.join(ROOT, "coq/theories/Props", cxx + ".v")
s = open(p).read()
imp = "Proofs." + pf
pre = "" if imp in s else "From HT Require Import %s.\n" % imp
s = s.rstrip("\n") + "\n\n" + pre + "Theorem %s %s\nProof. exact %s. Qed.\nPrint Assumptions %s.\n" % (new, stmt, lemma, new)
open(p, "w").write(s)
print("added", new, "to", cxx)
