#!/bin/bash
# gen/confirm_mut.sh /tmp/mut/Cxx : confirm a seeded change in ITS OWN scratch worktree:
#  (a) patch only: existing suite passes (101); (b) patch + demo: demo fails; (c) demo only: demo passes.
W=$1; cd $W || exit 2
export CARGO_NET_OFFLINE=true
git reset -q --hard; git clean -fdq -e _out -e target
run() { timeout 1500 cargo test --workspace --no-fail-fast --offline 2>&1 | grep -E "^test result" | awk '{p+=$4; f+=$6} END {print p" passed, "f" failed"}'; }
git apply _out/patch.diff || { echo "patch does not apply"; exit 2; }
echo "patch only      : $(run)"
git apply _out/demo.diff || { echo "demo does not apply"; exit 2; }
echo "patch + demo    : $(run)"
git apply -R _out/patch.diff
echo "demo only       : $(run)"
git reset -q --hard; git clean -fdq -e _out -e target
