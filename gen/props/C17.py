from fw import PropertyCheck
import fam_world


class Check(PropertyCheck):
    pid = "C17"
    search_rounds = 1
    search_tier = "quick"
    rule = ("histories on the real factory/pair/cw20 contracts mixing pair creations (valid, duplicate in the other order, "
            "same asset, dead cw20, bad commission / LP decimals) and native-decimals registrations by owner and non-owner, "
            "with 1, 9, 10, 11, 12 (thorough: up to 14) registered pairs over 4 denoms and 3 cw20s, the re-registered denom "
            "in first or second position; after every step the factory's denom table, its record of every pair and each "
            "pair's own description are compared with the model and with each other.  Non-trivial = a history with at "
            "least 2 successful transactions.")
    modelled = ["cw-multi-test 0.16.1 (instantiate/reply flow, contract address allocation); cw20-base 1.0.0 instantiate validation",
                "the key order of the factory's PAIRS map is not modelled at this level (storage-level family of C16/C19 covers it)"]
    assumptions = ["E-actors; denoms used are prefix-free (no KF-key-concat collision in these worlds)"]

    def families(self, rng, tier):
        return [("world.registry", fam_world.registry_histories(rng.sub("registry_histories"), tier, big=True))]
