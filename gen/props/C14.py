from fw import PropertyCheck
import fam_world


class Check(PropertyCheck):
    pid = "C14"
    search_rounds = 1
    search_tier = "quick"
    rule = ('exhaustive matrix on the real contracts: every execute variant of factory, pair and router x caller role {owner, former owner, stranger, factory, router, pair, LP token, asset token, another pair} x {before, after an ownership transfer}; plus rogue calls inside random histories; snapshot comparison after every step; monitor: success => caller authorised (and ownership follows UpdateConfig), failure => nothing changed.  Non-trivial = history with >= 2 successful transactions.')
    modelled = ["cw-multi-test 0.16.1 transaction atomicity and depth-first message order; cw20-base 1.0.0; the bank"]
    assumptions = ["E-funds, E-actors, E-names, E-zero-coin (DESIGN.md section 4.5)"]

    def families(self, rng, tier):
        return [("world.auth_matrix", fam_world.auth_matrix(rng.sub("auth_matrix"), tier)), ("world.general", fam_world.general_histories(rng.sub("general_histories"), tier, n_hist={"quick": 4, "thorough": 40}[tier]))]
