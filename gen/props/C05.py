from fw import PropertyCheck
import fam_world
import fam_swap


class Check(PropertyCheck):
    pid = "C05"
    rule = ("calculate_lp_token_amount_to_user inputs: first provision whitelist x minimum matrix, square-root "
            "boundaries (s*s, s*s-1, ...), u128 overflow of d0*d1; later provisions balanced/unbalanced around the "
            "pool ratio and random, zero reserves, quotient overflow.  Non-trivial = Ok.  Distinct by input.")
    rule_world = 'plus world histories: see C03'
    modelled = ["system level (deposits pulled, reserved unit, zero-share rejection) is covered by the world family"]
    assumptions = ["amounts are 128-bit"]

    def families(self, rng, tier):
        return [("formulas.lp_share", fam_swap.share_cases(rng.sub("share_cases"), tier)),
                ("world.provide_matrix", fam_world.provide_matrix(rng.sub("provide_matrix"), tier)),
                ("world.first_provision", fam_world.first_provision_matrix(rng.sub("first_provision_matrix"), tier)),
                ("world.reseed", fam_world.reseed_histories(rng.sub("reseed_histories"), tier)),
                ("world.general", fam_world.general_histories(rng.sub("general_histories"), tier, n_hist={"quick": 5, "thorough": 50}[tier])), ("world.extreme", fam_world.extreme_histories(rng.sub("extreme_histories"), tier))]
