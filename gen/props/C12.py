from fw import PropertyCheck
import fam_world
import fam_swap


class Check(PropertyCheck):
    pid = "C12"
    rule = ("compute_offer_amount inputs: corpus, random magnitudes, asks placed next to the point where the "
            "grossed-up ask reaches the ask reserve, commission rates up to 1-1e-18 and above 1; compute_swap inputs "
            "as in C06 (the forward quote and the swap share this function).  Non-trivial = Ok.  Distinct by input.")
    rule_world = 'plus world histories'
    modelled = ["system level (Simulation query = executed swap; router folds) is covered by the world family"]
    assumptions = ["operands are 128-bit"]

    def families(self, rng, tier):
        return [("formulas.compute_offer_amount", fam_swap.reverse_cases(rng.sub("reverse_cases"), tier)),
                ("world.general", fam_world.general_histories(rng.sub("general_histories"), tier, n_hist={"quick": 5, "thorough": 50}[tier])), ("world.router", fam_world.router_histories(rng.sub("router_histories"), tier)),
                ("world.deep_pool", fam_world.deep_pool_histories(rng.sub("deep_pool"), tier)),
                ("world.commission", fam_world.commission_histories(rng.sub("commission_histories"), tier)),
                ("world.reverse_top", fam_world.reverse_top_histories(rng.sub("reverse_top"), tier))]
