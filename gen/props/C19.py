from fw import PropertyCheck
import fam_registry
import fam_world


class Check(PropertyCheck):
    pid = "C19"
    rule = ("registries of 0..40 entries (quick: sizes 0,1,2,9,10,11,12,29,30,31,40; thorough: all) over native denoms "
            "with shared prefixes and 0x00/0x01/0x7f tails plus MockApi-canonicalised token addresses, stored with the "
            "real PAIRS map on MockStorage; complete client walks with page sizes 1..40 and absent, and single pages for "
            "every cursor in both asset orders.  Non-trivial = a registry with at least 2 entries (walk) / any page. "
            "Distinct by (registry, limit, cursor).")
    modelled = ["cw-storage-plus Map iteration order (lexicographic on raw key bytes) and MockApi's address codec are "
                "third-party; the harness reports as_bytes of every asset so the model never assumes the codec",
                "world level: the factory's Pairs query is walked with several page sizes inside creation / re-registration histories on the real contracts in cw-multi-test and compared with the model's registry and with the pairs that exist (mon_C19)"]
    assumptions = ["page size >= 1 for a walk (page size 0 returns an empty page and never advances)"]

    def families(self, rng, tier):
        return [("registry.walk", fam_registry.walk_cases(rng.sub("walk_cases"), tier)),
                ("world.registry", fam_world.registry_histories(rng.sub("registry_histories"), tier))]
