from fw import PropertyCheck
import fam_world


class Check(PropertyCheck):
    pid = "C07"
    search_rounds = 2
    search_tier = "quick"
    rule = ("multi-actor histories on the real contracts in cw-multi-test (4 users, 2 native denoms, 2 cw20s, pairs of all "
            "three kinds; every user holds balances and open allowances toward every pair): provisions, swaps by both "
            "entry points, withdrawals, router routes, donations, mints/burns, malformed and rogue calls; plus histories "
            "with donations up to 2^119 and the initial-provision matrix (caller whitelisted or not x receiver x minimums, "
            "everybody holding open allowances).  After every step the full ledger snapshot (all accounts x all assets, supplies, "
            "allowances, factory and pair records) is compared with the model and the frame / conservation monitor is "
            "evaluated on the implementation's snapshots.  Non-trivial = a history with at least 2 successful "
            "transactions.  Distinct by (world parameters, operation list).")
    modelled = ["cw-multi-test 0.16.1 transaction atomicity and depth-first message order; cw20-base 1.0.0; the bank"]
    assumptions = ["E-funds, E-actors, E-names, E-zero-coin (DESIGN.md section 4.5)"]

    def families(self, rng, tier):
        return [("world.general", fam_world.general_histories(rng.sub("general_histories"), tier)),
                ("world.extreme", fam_world.extreme_histories(rng.sub("extreme_histories"), tier)),
                ("world.first_provision", fam_world.first_provision_matrix(rng.sub("first_provision_matrix"), tier)),
                ("world.lookalike", fam_world.lookalike_histories(rng.sub("lookalike_histories"), tier)),
                ("world.reseed", fam_world.reseed_histories(rng.sub("reseed_histories"), tier)),
                ("world.dust_withdrawal", fam_world.dust_withdrawal_histories(rng.sub("dust_withdrawal"), tier))]
