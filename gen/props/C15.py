from fw import PropertyCheck
import fam_world
import fam_guards


class Check(PropertyCheck):
    pid = "C15"
    rule = ("assert_slippage_tolerance inputs: tolerances {0,1e-18,1-1e-18,1,1+1e-18,2,..} and random 18-digit "
            "rates; deposits binary-searched to the largest accepted value for the given reserves (+-1,+2), both "
            "orientations; zero deposits/reserves; random magnitudes.  Non-trivial = tolerance given and the guard "
            "decided (Ok or MaxSlippage).  Distinct by input.")
    rule_world = 'plus world histories'
    modelled = ["Decimal -> Decimal256 conversion (through text) is modelled as value-preserving; C18 covers it",
                "system level (which reserves the pair passes to the guard) is covered by the world family"]
    assumptions = ["deposits and reserves are 128-bit"]

    def families(self, rng, tier):
        return [("guards.assert_slippage_tolerance", fam_guards.slippage_cases(rng.sub("slippage_cases"), tier)),
                ("world.guards", fam_world.guard_histories(rng.sub("guard_histories"), tier))]
