from fw import PropertyCheck
import fam_world
import fam_registry


class Check(PropertyCheck):
    pid = "C16"
    rule = ("pair_key on pairs of identifier pairs over all strings of {a,b} up to length 3 plus prefix-sharing denoms "
            "and token addresses (thorough: up to 12000 quadruples, quick: 500 sampled), each checked for symmetry and "
            "for 'equal key => same unordered set'; lookups in registries built with the real PAIRS map over a "
            "prefix-free universe, querying registered and unregistered sets in both orders; the KF-key-concat "
            "witness.  Non-trivial = every case.  Distinct by input.")
    rule_world = 'plus world histories'
    modelled = ["MockApi address codec: the harness reports as_bytes, the model works on those bytes",
                "world level (factory CreatePair/reply, pair self-description, decimals) is covered by the world family"]
    assumptions = ["known finding KF-key-concat: identifier sets whose sorted concatenations coincide are exempted and counted"]

    def families(self, rng, tier):
        return [("registry.keys_and_lookup", fam_registry.key_cases(rng.sub("key_cases"), tier)),
                ("world.registry", fam_world.registry_histories(rng.sub("registry_histories"), tier))]

    def witnesses(self):
        return {"KF-key-concat": fam_registry.collision_witness()}
