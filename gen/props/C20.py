from fw import PropertyCheck
import fam_world


class Check(PropertyCheck):
    pid = "C20"
    search_rounds = 1
    search_tier = "quick"
    rule = ('random and extreme histories (donations up to 2^119, extreme swaps, further provisions); after each history every LP holder withdraws {all, half, a tenth} and during histories withdrawals of 1, half, all, all+1; monitor: a withdrawal by a holder with 1 <= a <= balance whose entitlement r_i*a/S >= r_i/10^18 + 2 holds for both assets must succeed.  Non-trivial = history with >= 2 successful transactions.')
    modelled = ["cw-multi-test 0.16.1 transaction atomicity and depth-first message order; cw20-base 1.0.0; the bank"]
    assumptions = ["E-funds, E-actors, E-names, E-zero-coin (DESIGN.md section 4.5)"]

    def families(self, rng, tier):
        return [("world.general", fam_world.general_histories(rng.sub("general_histories"), tier)), ("world.extreme", fam_world.extreme_histories(rng.sub("extreme_histories"), tier)),
                ("world.lp_handover", fam_world.lp_handover_histories(rng.sub("lp_handover_histories"), tier))]
