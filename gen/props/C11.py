from fw import PropertyCheck
import fam_world


class Check(PropertyCheck):
    pid = "C11"
    search_rounds = 1
    search_tier = "quick"
    rule = ("router routes of 1..4 hops over a 4-asset world (2 natives, 2 cw20s, 6 pairs of all kinds), both entry points, minimum_receive in {quote-1, quote, quote+1, 0, huge} around the router's own quote, recipients {none, other, sender}, pools perturbed by other traders between quote and execution, non-chain and repeated-pair shapes; snapshot comparison after every step; monitor: success => recipient gained >= minimum (net of own payment), failure => nothing changed.  Non-trivial = history with >= 2 successful transactions.")
    modelled = ["cw-multi-test 0.16.1 transaction atomicity and depth-first message order; cw20-base 1.0.0; the bank"]
    assumptions = ["E-funds, E-actors, E-names, E-zero-coin (DESIGN.md section 4.5)"]

    def families(self, rng, tier):
        return [("world.router", fam_world.router_histories(rng.sub("router_histories"), tier)), ("world.general", fam_world.general_histories(rng.sub("general_histories"), tier, n_hist={"quick": 4, "thorough": 40}[tier]))]
