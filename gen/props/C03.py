from fw import PropertyCheck
import fam_world


class Check(PropertyCheck):
    pid = "C03"
    search_rounds = 1
    search_tier = "quick"
    rule = ("multi-actor random histories (4 actors, 36-70 steps, reserves from 10^9 to 2^100, commission rates {default, 0, 0.003, 0.3, 1}) on all pair kinds with provisions, swaps both ways by both entry points, withdrawals, router routes, donations, burns, malformed and rogue calls; histories with donations up to 2^119 and extreme swaps; monitor: reserve0*reserve1*S'^2 <= reserve0'*reserve1'*S^2 and S' > 0 for every pair with S > 0 at every step, swaps in the known class kf_c01 exempt.  Non-trivial = history with >= 2 successful transactions.")
    modelled = ["cw-multi-test 0.16.1 transaction atomicity and depth-first message order; cw20-base 1.0.0; the bank"]
    assumptions = ["E-funds, E-actors, E-names, E-zero-coin (DESIGN.md section 4.5)"]

    def families(self, rng, tier):
        return [("world.general", fam_world.general_histories(rng.sub("general_histories"), tier)), ("world.extreme", fam_world.extreme_histories(rng.sub("extreme_histories"), tier)), ("world.router", fam_world.router_histories(rng.sub("router_histories"), tier)),
                ("world.lookalike", fam_world.lookalike_histories(rng.sub("lookalike_histories"), tier)),
                ("world.reseed", fam_world.reseed_histories(rng.sub("reseed_histories"), tier))]
