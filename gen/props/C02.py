from fw import PropertyCheck
import fam_world


class Check(PropertyCheck):
    pid = "C02"
    search_rounds = 1
    search_tier = "quick"
    rule = ("exhaustive matrix on the real contracts per pair kind (native/native, native/cw20, cw20/cw20): entry point "
            "{execute swap, cw20 send hook from each deliverable token, direct Receive by a non-token} x named asset "
            "{asset0, asset1, foreign token, foreign native} x named amount {=, -1, +1, 0} x attached funds {none, exact, "
            "other denom, with an extra coin} x receiver {none, another user, the pair}; plus random multi-actor histories. "
            "Every step's full ledger snapshot is compared with the model and the settlement monitor (offer reserve +a, ask "
            "reserve -return, receiver +return, named asset = delivered asset) is evaluated on the implementation's "
            "snapshots and swap attributes.  Non-trivial = a history with at least 2 successful transactions.")
    modelled = ["cw-multi-test 0.16.1 transaction atomicity and message order; cw20-base 1.0.0; the bank"]
    assumptions = ["E-funds, E-actors (DESIGN.md section 4.5)"]

    def families(self, rng, tier):
        return [("world.swap_matrix", fam_world.swap_matrix(rng.sub("swap_matrix"), tier)),
                ("world.general", fam_world.general_histories(rng.sub("general_histories"), tier, n_hist={"quick": 6, "thorough": 60}[tier]))]
