from fw import PropertyCheck
import fam_world
import fam_swap


class Check(PropertyCheck):
    pid = "C01"
    rule = ("compute_swap inputs: repo vectors and the KF-ceil-window witnesses (corpus); inputs solved to put "
            "q=y*a/(x+a) on either side of the 10^-18 window below an integer, at the 2^256 product overflows, "
            "and small exhaustive values (directed); log-uniform random triples.  Non-trivial = the implementation "
            "priced the swap (Ok).  Cases are de-duplicated by input.")
    rule_world = 'plus world histories'
    modelled = ["bigint::U256 limb arithmetic is modelled as exact checked arithmetic on N (third-party code)",
                "system level (pair contract swap through execute / cw20 hook / router) is covered by the world "
                "correspondence family once built; function level is what the theorems here are about"]
    assumptions = ["operands are 128-bit and the commission rate is at most 1.0",
                   "known finding KF-ceil-window: inputs in the Coq class kf_c01 are exempted and counted"]

    def families(self, rng, tier):
        return [("formulas.compute_swap", fam_swap.swap_cases(rng.sub("swap_cases"), tier)),
                ("world.general", fam_world.general_histories(rng.sub("general_histories"), tier, n_hist={"quick": 5, "thorough": 50}[tier])),
                ("world.lookalike", fam_world.lookalike_histories(rng.sub("lookalike_histories"), tier))]

    def witnesses(self):
        w = fam_swap.WITNESSES
        return {"KF-ceil-window": fam_swap.swap_case(*w[0], "corpus"),
                "KF-ceil-window-drain": fam_swap.swap_case(*w[1], "corpus")}
