from fw import PropertyCheck
import fam_swap


class Check(PropertyCheck):
    pid = "C06"
    rule = ("compute_swap inputs: repo vectors and finding witnesses (corpus); inputs solved to sit on either "
            "side of the 10^-18 rounding window, of the 2^256 product overflows and of x/a/y in {0,1,..} "
            "(directed); log-uniform random triples with structured commission rates.  A case is non-trivial "
            "when the implementation returned Ok (a priced swap); cases are de-duplicated by input before "
            "running, so the count is of distinct cases.")
    modelled = ["bigint::U256 limb arithmetic is modelled as exact checked arithmetic on N (third-party code)"]
    assumptions = ["operands are 128-bit (Uint128 at the API) and the commission rate is at most 1.0 "
                   "(enforced by the factory at pair creation)"]

    def families(self, rng, tier):
        return [("formulas.compute_swap", fam_swap.swap_cases(rng, tier)),
                ("formulas.compute_swap.monotone", fam_swap.mono_cases(rng, tier))]
