from fw import PropertyCheck
import fam_swap
import fam_world


class Check(PropertyCheck):
    pid = "C06"
    rule = ("compute_swap inputs: repo vectors and finding witnesses (corpus); inputs solved to sit on either "
            "side of the 10^-18 rounding window, of the 2^256 product overflows and of x/a/y in {0,1,..} "
            "(directed); log-uniform random triples with structured commission rates.  A case is non-trivial "
            "when the implementation returned Ok (a priced swap); cases are de-duplicated by input before "
            "running, so the count is of distinct cases.  System level: histories on the real contracts with pairs of every kind "
            "created at commission rates {0, default, 1%, 1/2, 1, 10^-18, 3%}, direct swaps by both entry points before and "
            "after the factory owner migrates each pair and rolls the pair code id; the band / commission / sum clauses are "
            "evaluated on the amounts the pair reported against the reserves and the rate it described just before.")
    search_rounds = 1
    search_tier = "quick"
    modelled = ["cw-multi-test 0.16.1 transaction atomicity and message order; cw20-base 1.0.0; the bank (system-level family)", "bigint::U256 limb arithmetic is modelled as exact checked arithmetic on N (third-party code)"]
    assumptions = ["operands are 128-bit (Uint128 at the API) and the commission rate is at most 1.0 "
                   "(enforced by the factory at pair creation)"]

    def families(self, rng, tier):
        return [("formulas.compute_swap", fam_swap.swap_cases(rng.sub("swap_cases"), tier)),
                ("formulas.compute_swap.monotone", fam_swap.mono_cases(rng.sub("mono_cases"), tier)),
                ("world.commission", fam_world.commission_histories(rng.sub("commission_histories"), tier)),
                ("world.deep_pool", fam_world.deep_pool_histories(rng.sub("deep_pool"), tier)),
                ("world.rate_text", fam_world.rate_text_histories(rng.sub("rate_text"), tier))]
