from fw import PropertyCheck
import fam_world


class Check(PropertyCheck):
    pid = "C13"
    search_rounds = 1
    search_tier = "quick"
    rule = ("router routes of 1..4 hops (chain, non-chain, repeated pair, empty) over a 4-asset world with all pair kinds, both entry points, with the router empty or pre-funded; the router's own SimulateSwapOperations quote is taken in the same state just before; monitor: for distinct-pair routes entered with an empty router the recipient gains exactly the quote and the router ends with zero of every route asset.  Non-trivial = history with >= 2 successful transactions.")
    modelled = ["cw-multi-test 0.16.1 transaction atomicity and depth-first message order; cw20-base 1.0.0; the bank"]
    assumptions = ["E-funds, E-actors, E-names, E-zero-coin (DESIGN.md section 4.5)"]

    def families(self, rng, tier):
        return [("world.router", fam_world.router_histories(rng.sub("router_histories"), tier))]
