from fw import PropertyCheck
import fam_world


class Check(PropertyCheck):
    pid = "C04"
    search_rounds = 1
    search_tier = "quick"
    rule = ("withdrawals inside random and extreme histories (supplies many orders of magnitude from reserves, reserves inflated by donations); monitor on the implementation's snapshots: x_i*S <= r_i*a, r_i*a*D < (x_i+1)*S*D + r_i*S, LP supply and holder LP balance fall by exactly a, pair reserves fall by exactly x_i.  Non-trivial = history with >= 2 successful transactions.")
    modelled = ["cw-multi-test 0.16.1 transaction atomicity and depth-first message order; cw20-base 1.0.0; the bank"]
    assumptions = ["E-funds, E-actors, E-names, E-zero-coin (DESIGN.md section 4.5)"]

    def families(self, rng, tier):
        return [("world.general", fam_world.general_histories(rng.sub("general_histories"), tier)), ("world.extreme", fam_world.extreme_histories(rng.sub("extreme_histories"), tier)),
                ("world.lp_handover", fam_world.lp_handover_histories(rng.sub("lp_handover_histories"), tier)),
                ("world.counterfeit_lp", fam_world.counterfeit_lp_histories(rng.sub("counterfeit_lp"), tier)),
                ("world.dust_withdrawal", fam_world.dust_withdrawal_histories(rng.sub("dust_withdrawal"), tier))]
