from fw import PropertyCheck
import fam_text
import fam_world


class Check(PropertyCheck):
    pid = "C18"
    rule = ("values: the C08 operand grid plus a*10^k+b shapes with leading/trailing fractional zeros and random limb "
            "patterns, each rendered, parsed back, JSON-encoded and decoded on the real types; strings: ALL strings over "
            "{0,1,9,.} up to length 5 (quick) / 7 (thorough), numerals around 2^256 and around 18 fractional digits, "
            "foreign bytes, random numerals up to 120 characters; quoted JSON documents and malformed ones; 128<->256-bit "
            "and Decimal<->Decimal256 conversions on the grid.  Non-trivial = a rendered value or an accepted parse.  "
            "Distinct by input.")
    modelled = ["bigint's Display/from_dec_str and serde-json-wasm string (de)serialisation are third-party code, modelled; "
                "JSON decoding is modelled only for documents of the form \"<text without quotes or backslashes>\"",
                "cosmwasm Decimal's Display/FromStr are modelled as the same canonical numeral as Decimal256's"]
    assumptions = ["values < 2^256"]

    def families(self, rng, tier):
        return [("text.render_roundtrip", fam_text.text_cases(rng.sub("text_cases"), tier)),
                ("text.parse", fam_text.parse_cases(rng.sub("parse_cases"), tier)),
                ("text.widths", fam_text.width_cases(rng.sub("width_cases"), tier)),
                ("world.rate_text", fam_world.rate_text_histories(rng.sub("rate_text"), tier))]
