from fw import PropertyCheck
import fam_num


class Check(PropertyCheck):
    pid = "C08"
    rule = ("every public Uint256/Decimal256 operator of math.rs on a structured operand grid (0,1,2, "
            "2^(64i)+-1, 2^k+-1, 10^k+-1 for k<=77, 10^18+-1, floor(2^256/10^18)+-1, sqrt(2^256)+-1, limb "
            "patterns): every grid value against the pivots {0,1,10^18,2^128,2^256-1}, a cross product of a "
            "sub-grid, partners solved to put sums/products next to 2^256, random limb-masked operands.  "
            "Non-trivial = the implementation returned a value (Ok).  Distinct by (operator, operands).")
    modelled = ["bigint::U256 carry chains / schoolbook multiply / long division are third-party code reached "
                "through + - * /; modelled as exact checked arithmetic, tied by this grid only (partial: DESIGN.md C08)"]
    assumptions = ["operands < 2^256 (the type's range)"]

    def families(self, rng, tier):
        return [("num.operators", fam_num.num_cases(rng.sub("num_cases"), tier))]
