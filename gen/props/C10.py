from fw import PropertyCheck
import fam_world
import fam_guards


class Check(PropertyCheck):
    pid = "C10"
    rule = ("assert_max_spread inputs over asset-decimal pairs in 0..18 x 0..18 (quick: 95 pairs, thorough: all 361) "
            "plus out-of-range decimals; for random (offer, belief price, max spread, spread) the return amount is "
            "binary-searched to the smallest accepted value and tried at -1/0/+1; fully random inputs incl. "
            "absent limits, zero belief price, overflowing normalisation.  Non-trivial = max_spread given and the "
            "guard decided (Ok or MaxSpread).  Distinct by input.")
    rule_world = 'plus world histories'
    modelled = ["Decimal -> Decimal256 conversion is modelled as value-preserving; C18 covers it",
                "system level (offer/ask decimals by position, executed amounts) is covered by the world family"]
    assumptions = ["amounts are 128-bit"]

    def families(self, rng, tier):
        return [("guards.assert_max_spread", fam_guards.spread_cases(rng.sub("spread_cases"), tier)),
                ("world.guards", fam_world.guard_histories(rng.sub("guard_histories"), tier))]
