from fw import PropertyCheck
import fam_world
import fam_guards


class Check(PropertyCheck):
    pid = "C09"
    search_rounds = 1
    search_tier = "quick"
    rule = ('the helper itself on denoms that differ only by letter case, by a suffix or prefix, or not at all, with the matching coin first / last / absent / duplicated / zero and amounts beyond 64 bits; exhaustive matrix on the real pair contracts: entry point {provide, execute swap, hook swap / direct Receive} x pair kind {native/native, native/cw20} x declared {0, v} x attached {absent, 0, v-1, v, v+1} x extra unrelated coin {no, yes} x the same for the second denom; plus random histories with malformed funds.  Full snapshot comparison with the model after every step; the monitor checks that a success means exactly the declared amount was attached and reached the pair, and that a failure changed nothing.  Non-trivial = history with >= 2 successful transactions.')
    modelled = ["cw-multi-test 0.16.1 transaction atomicity and depth-first message order; cw20-base 1.0.0; the bank"]
    assumptions = ["E-funds, E-actors, E-names, E-zero-coin (DESIGN.md section 4.5)"]

    def families(self, rng, tier):
        return [("asset.assert_sent_native_token_balance", fam_guards.sent_native_cases(rng.sub("sent_native_cases"), tier)),
                ("world.funds_matrix", fam_world.funds_matrix(rng.sub("funds_matrix"), tier)), ("world.general", fam_world.general_histories(rng.sub("general_histories"), tier, n_hist={"quick": 5, "thorough": 50}[tier])),
                ("world.lookalike", fam_world.lookalike_histories(rng.sub("lookalike_histories"), tier))]
