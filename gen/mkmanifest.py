#!/usr/bin/env python3
"""Regenerate MANIFEST.json from the table below (kept next to the checks so the two stay in step)."""
import json
import os

ROOT = os.path.dirname(os.path.dirname(os.path.abspath(__file__)))

TB = ("Trusted: Coq 8.16.1 kernel (coqc, vm_compute; no native_compute), no axioms (Print Assumptions is checked "
      "on every run against an empty allow-list), the hand-written Gallina model, the Rust harness + python "
      "generators + Exec/Cases.v checkers that tie it to /repo by differential correspondence; third-party code "
      "(bigint, cosmwasm-std, cw20-base, cw-multi-test) is modelled, not verified.")

TECH = "Coq proof over a hand-written Gallina model (closed-form lemma + lia/nia); model-vs-code differential correspondence evaluated inside coqc (vm_compute)"

CLAIMED = {
    "C01": dict(
        text="Coq theorems C01_fn (outside the recorded class kf_c01: paid <= y*a/(x+a), reserve product does not fall, ask reserve stays positive), "
             "C01_fn_window_exact (the class is exactly the violating set), C01_refuted / C01_drain_refuted (witnesses, known finding KF-ceil-window) "
             "over the model of compute_swap for all 128-bit operands and rates in [0,1]; tied to the real compute_swap by the differential "
             "correspondence; witnesses replayed on the real code every run.  System-level statement is covered by the world family when built.",
        design_ref="DESIGN.md section 8 (C01), section 9"),
    "C05": dict(
        text="Coq theorems C05_share (m = min_i floor(d_i*T/r_i) as a sandwich) and C05_first (whitelist, minimums, floor sqrt) over the model of "
             "calculate_lp_token_amount_to_user; tied to the real function by the differential correspondence; C05_structure (ledger level: exact deposits pulled, reserved unit minted to the LP token's own address, zero-share rejection) over the world model; "
             "C05_locked_unit / C05_lp_address_never_debited / C05_inert_step / C05_inert_history (the reserved unit can never be spent: over any history of user-submitted operations from the harness's start no asset held at an LP token's own address is ever debited; "
             "induction over run with the invariant Inert' - contracts hold no outgoing allowances, the router is not a token - whose two extra hypotheses are shown necessary by machine-checked counterexamples).",
        design_ref="DESIGN.md section 8 (C05)"),
    "C06": dict(
        text="Coq theorems C06_band / C06_commission / C06_commission_stays / C06_sum / C06_mono / C06_ok_iff over the "
             "model of compute_swap for all 128-bit operands and all rates in [0,1]; the model is tied to "
             "haloswap::formulas::compute_swap by a differential correspondence run (boundary-directed + random) on "
             "every invocation, and the property's decidable checker is also evaluated on the implementation's outputs.  System level (session 4): C06_create_pair_sets_rate / C06_rate_never_changes / C06_rate_fixed_at_creation (Proofs/PairConfigProofs.v: a pair's configuration - assets, LP token, minimums, whitelist, factory and COMMISSION RATE - is fixed at creation and kept by every operation over any history; only recorded decimals change), C06_rate_example; mon_C06 also checks that a created pair describes the rate it was created with and judges the quote attached to a swap; world.deep_pool (offers as large as a 3*10^29 reserve).",
        design_ref="DESIGN.md section 8 (C06)"),
    "C08": dict(
        text="One Coq theorem per Uint256/Decimal256 operator of math.rs (exact_or_abort: succeeds exactly under the stated no-abort condition with "
             "the floor-rounded mathematical value given as a sandwich, aborts otherwise), uniqueness of the floor and no-wrap, limb-level "
             "widening/narrowing; tied to the real operators on a structured operand grid.  PARTIAL: bigint::U256's limb algorithms are third-party "
             "code modelled as exact arithmetic, tied by the grid only.",
        design_ref="DESIGN.md section 8 (C08)"),
    "C10": dict(
        text="Coq theorems C10_belief_sound / _sound_rational / _complete, C10_spread_sound / _complete, C10_abort_set, C10_normalise over the "
             "model of assert_max_spread for all 128-bit amounts, all 18-digit limits and all decimals; tied to the real guard by boundary-searched "
             "differential cases over the decimals matrix.  System level (which decimals/amounts the pair passes) via the world family.",
        design_ref="DESIGN.md section 8 (C10)"),
    "C12": dict(
        text="Coq theorems C12_reverse (offer = floor(x*y/(y-t)) - x with the grossed-up ask t inside its rounding bound), C12_reverse_never_above, "
             "C12_reverse_closed_form (exact abort set) over the model of compute_offer_amount; tied to the real function by the differential "
             "correspondence.  PARTIAL: forward quote = execution and the router folds need the world model.  world.deep_pool: the deepest pool provide_liquidity accepts, offers quoted then swapped up to the size of the reserve.",
        design_ref="DESIGN.md section 8 (C12)"),
    "C15": dict(
        text="Coq theorems C15_sound, C15_complete, C15_over_100, C15_no_abort, C15_absent over the model of assert_slippage_tolerance for all "
             "128-bit deposits/reserves and all tolerances; tied to the real guard by boundary-searched differential cases.  System level "
             "(reserves net of the native deposit) via the world family.",
        design_ref="DESIGN.md section 8 (C15)"),
    "C02": dict(
        text="Coq theorems over the world model (bank, cw20-base, pair, factory, router; one Gallina handler per Rust arm): C02_payment, C02_settlement (a swap is priced on the "
             "reserves net of the delivered offer and moves exactly the returned amount of the ask asset pair->receiver, nothing else; aliasing included), C02_delivered_execute / "
             "C02_delivered_hook (named asset and amount = delivered asset and amount in the same transaction), C02_attached_funds, C02_hook_confusion_rejected, C02_tx_native / C02_tx_hook (the WHOLE transaction, entry transfer included, as the user sees it: pair offer reserve +amount, ask reserve -return, receiver +return, trader -amount, every third account unchanged, priced by compute_swap on the reserves before the transaction).  Tied to the real "
             "contracts in cw-multi-test by full-ledger snapshot comparison after every step of an exhaustive delivered x named x amount x funds x receiver matrix and random histories; "
             "settlement monitor evaluated on the implementation's snapshots.  The defect found here was repaired in /repo (fix: C02).",
        design_ref="DESIGN.md section 8 (C02), section 9"),
    "C03": dict(
        text="Coq theorems C03_step / C03_hist_abstract (over ANY finite sequence of pool steps the value reserve0*reserve1/supply^2 never decreases and the supply stays positive; induction), "
             "C03_provision_is_step / C03_withdrawal_is_step / C03_swap_is_step (the premises of each step kind are what C05/C04/C01 prove about the real formulas), C03_sys_swap / "
             "C03_sys_withdraw / C03_sys_provide (the pair handlers of the world model ARE pool steps on the actual balances), C03_refuted (known finding KF-ceil-window); over run: C03_swapless_tx / C03_swapless_history (over ANY history of user-submitted provisions, withdrawals, transfers, mints, burns, donations, factory operations and rejected calls, "
             "from a well-formed solvent start, no pair's value ever decreases), C03_direct_swap_tx / C03_hook_swap_tx (a direct swap outside kf_c01 lowers no pair's value), C03_tx_path / C03_history_path (every transaction moves every pair along a finite path of pool steps and class swaps).  "
             "C03_history (ASSEMBLED: over any history of user-submitted operations incl. router routes of any length, from a well-formed solvent start, in which no successful swap - direct, hooked or a hop of a route, judged on the reserves at the moment it is priced - "
             "falls in kf_c01, the value of every pair with positive supply never decreases; non-vacuity by C03_history_example).  "
             "Also monitored on the real contracts after every step of multi-actor random, extreme and router histories (swaps in kf_c01 exempt and counted).",
        design_ref="DESIGN.md section 8 (C03), section 9"),
    "C04": dict(
        text="Coq theorems C04_fn (r_i*a/T - r_i/10^18 - 1 < x_i <= r_i*a/T as cross-multiplied sandwich), C04_le_reserve, C04_total over the withdrawal arithmetic, and C04_structure / "
             "C04_sys over the world model (holder receives x_i from the pair, supply and the pair's LP balance fall by exactly a, no other account changes), C04_tx (the whole Send{withdraw} transaction pointwise on the ledger).  Tied to the real contracts by "
             "ledger snapshot comparison and the withdrawal monitor on random and extreme histories.  mon_C04 also refuses any withdraw hook honoured from a token other than the pair's LP (world.counterfeit_lp: a cw20 naming the pair as its minter).",
        design_ref="DESIGN.md section 8 (C04)"),
    "C07": dict(
        text="Coq theorems over the world model: C07_frame / C07_frame_reachable (an operation changes no balance outside touched(o), in every world reachable by any history from a "
             "well-formed start), C07_WF_* (the structural invariant and its preservation by every operation: induction over run), C07_conserves (every operation conserves every asset's "
             "total except its own mint/burn and the pair's LP token on provision/withdrawal), C07_route_frame, C07_factory_moves_nothing.  On the real contracts: full-ledger snapshot "
             "comparison with the model plus the frame / conservation / LP-supply monitor after every step of multi-actor histories with bystanders holding balances and allowances toward "
             "every pair.  History level (session 4, Proofs/ConserveHistProofs.v): C07_history_conserves, C07_native_never_minted, C07_native_total_constant (over any history, the total of every native denom over a roster containing what the history touches is constant), C07_native_total_example.",
        design_ref="DESIGN.md section 8 (C07)"),
    "C09": dict(
        text="Coq theorems C09_helper (exact characterisation of assert_sent_native_token_balance), C09_swap / C09_provide / C09_exec_swap / C09_exec_provide (a successful provision or swap "
             "naming a native amount had exactly that coin attached; execute-swap only for native offers), C09_failed_unchanged.  Tied to the real contracts by the exhaustive declared x attached "
             "x extra-coin matrix for provide and both swap entry points, with ledger snapshot comparison and the funds monitor.",
        design_ref="DESIGN.md section 8 (C09)"),
    "C11": dict(
        text="Coq theorems C11_min_receive (success with minimum m => recipient's final-asset balance grew by >= m over the state after the entry transfer), C11_assert_message, "
             "C11_entry_native / C11_entry_cw20, C11_failed_unchanged over the world model.  Tied to the real router/pairs by 1..4-hop routes with minimums around the router's own quote, "
             "perturbed pools, both entry points; ledger snapshot comparison and the minimum-receive monitor.  Whole-transaction statements as the user sees them (session 4, Proofs/RouterTxProofs.v): C11_tx_native / C11_tx_native_total / C11_tx_native_other_recipient / C11_tx_cw20 (with w the world BEFORE the transaction: before + m <= after + what the recipient itself paid in the final asset), C11_tx_native_needs_distinct_coins (machine-checked reason for the distinct-coins hypothesis), C11_tx_example.",
        design_ref="DESIGN.md section 8 (C11)"),
    "C13": dict(
        text="Coq theorems C13_rejects_empty, C13_single_dangling_output, C13_only_last_hop_pays_recipient, C13_hop_swaps_whole_balance, C13_hop_delivers, C13_one_hop_quote, "
             "C13_two_hops_quote and C13_route_quote / C13_exec_route_quote (for a chain route of ANY number of hops through distinct pairs over distinct assets, entered with the router "
             "holding only the input, the recipient receives exactly the router's own quote and every route asset ends at zero in the router; induction over the hop list).  On the real "
             "contracts: the quote is taken in the same state just before each route and compared by the monitor, with ledger snapshot comparison with the model.  C13_route_quote_revisit / C13_exec_route_quote_revisit (session 4, Proofs/RouteCycleProofs.v): the same conclusion with the asset-distinctness hypotheses dropped - only 'hops use distinct pairs' remains, as in the property text (cycles and routes that pass through an asset twice), non-vacuity by C13_route_revisit_example.",
        design_ref="DESIGN.md section 8 (C13)"),
    "C14": dict(
        text="Coq theorems, one per guarded entry point (C14_factory_* , C14_pair_update_decimals, C14_pair_withdraw_hook, C14_pair_swap_hook, C14_router_single_hop, C14_router_assert_min), "
             "C14_rejected_unchanged, and the history-level C14_owner_changes_only_by_update_config / C14_owner_after_run (induction over run).  Tied to the real contracts by the exhaustive "
             "execute-variant x caller-role x before/after-ownership-transfer matrix with ledger snapshot comparison and the authorisation monitor.",
        design_ref="DESIGN.md section 8 (C14)"),
    "C16": dict(
        text="Coq theorems C16_sym, C16_inj (key equality => same unordered set over any prefix-free identifier universe), C16_refuted (KF-key-concat witness), "
             "C16_same_asset_rejected, C16_duplicate_rejected, C16_create_lookup and C16_hist (any history of creation attempts: created sets resolve in either order "
             "to their own record, all others to nothing) over the storage-level model of pair_key/PAIRS; tied to the real pair_key and PAIRS map on MockStorage.  "
             "World level: C16_create_facts (owner, distinct assets, unregistered set, true decimals of registered natives / live cw20s, record = new pair's description), C16_world_duplicate_rejected, C16_world_lookup_either_order, C16_world_injective, C16_world_consistent, C16_lookup_self_description (after ANY history from a well-formed start, whatever the factory returns for a lookup is the pair's own description and the queried set) over the world model, tied to the real factory by creation histories.  C16_pair_config_immutable / _history (session 4): an existing pair keeps its assets, LP token, minimums, whitelist, factory and rate over every operation.",
        design_ref="DESIGN.md section 8 (C16), section 9"),
    "C19": dict(
        text="Coq theorems C19_page, C19_walk (for every sorted registry with records under their own keys and every page size >= 1 or absent, the client walk's pages "
             "concatenate to exactly the registered entries and the next page is empty; induction over the unbounded list), C19_no_duplicates, C19_page_size, "
             "C19_default_page, C19_insert_sorted over the model of read_pairs/calc_range_start; tied to the real read_pairs on MockStorage with full walks and "
             "every-cursor pages.  The defect found here was repaired in /repo (fix: aa4409b).  System level (session 4, Proofs/WorldWalkProofs.v): C19_world_store, C19_world_walk, C19_reachable_walk (from the harness's start, after any history, a client's walk with any page size lists every registered pair exactly once, for any encoding of assets that gives the records different keys), C19_world_walk_example.",
        design_ref="DESIGN.md section 8 (C19), section 9"),
    "C17": dict(
        text="Coq theorems C17_update (re-registration rewrites EVERY record of the unbounded registry in the denom's position and keeps RegOK, i.e. record = pair self-description; induction "
             "over the registry), C17_first_registration, C17_consistent_init / _create / _frame, C17_step / C17_history (record = pair self-description is preserved by EVERY operation, hence over every history; induction over run).  Tied to the real factory/pairs by creation+registration histories with 1..14 pairs and the "
             "decimals monitor.  The defect found here was repaired in /repo (fix: C17).  HISTORY level (session 4, Proofs/DecimalsHistProofs.v): C17_decimals_step / C17_decimals_history / C17_decimals_start (invariant DecOK: every pair records the TRUE decimals of both assets - the registry's current value for a native denom, the token's own for a cw20 - and every pair is registered; preserved by every operation not submitted by the factory address itself, holds in the harness's start), C17_registered_decimals_reach_every_pair (from the start, after any history, every factory record and the pair it names carry the registered decimals of each native asset), C17_decimals_example.",
        design_ref="DESIGN.md section 8 (C17), section 9"),
    "C18": dict(
        text="Coq theorems C18_u256_roundtrip, C18_render_canonical, C18_int_parse_sound/_complete, C18_dec_roundtrip, C18_dec_canonical, C18_parse_sound, C18_json_uint/_dec, "
             "C18_width_*, C18_decimal_* over the byte-level model of from_dec_str / Display / Decimal256::from_str / serde strings / limb conversions, for all values < 2^256 and all strings "
             "(induction over digit lists).  Tied to the real types on the operand grid and on ALL strings over {0,1,9,.} up to length 5 (quick) / 7 (thorough) plus boundary numerals.  JSON escapes are in the model since session 4 (Num/Text.v: unescape, json_decode_esc): C18_json_spelling_uint / C18_json_spelling_dec (every JSON spelling of a text - any of its characters written as \\u00XY - is read exactly as the plain spelling), C18_json_esc_uint / _dec and C18_json_respelled_uint / _dec (round trips through the escape-aware decoder, also after re-spelling the library's own output), C18_json_spelling_example.",
        design_ref="DESIGN.md section 8 (C18)"),
    "C20": dict(
        text="Coq theorems C20 / C20_handler / C20_refund_positive and C20_reachable (in every world reachable by any history from a well-formed start an entitled withdrawal succeeds; the "
             "structural hypotheses are discharged by the invariant WF), C20_solvent_step / C20_solvent_history (solvency - balances over any roster add up to < 2^128 resp. <= the recorded supply - is preserved by every operation) and C20_invariants (ALL side hypotheses discharged: from a well-formed solvent start, after any history, an entitled withdrawal succeeds), built on C04_total; on the real "
             "contracts every LP holder's withdrawals of {1, half, all, a tenth} after random and extreme histories (donations up to 2^119) are checked against the entitlement condition by "
             "the liveness monitor, with ledger snapshot comparison with the model.",
        design_ref="DESIGN.md section 8 (C20)"),
}
for _v in CLAIMED.values():
    _v.setdefault("technique", TECH)

NOT_YET = "not claimed"


def main():
    props = [json.loads(l) for l in open(os.path.join(ROOT, "properties.jsonl"))]
    checks, na = [], []
    for p in props:
        pid = p["id"]
        if pid in CLAIMED:
            c = CLAIMED[pid]
            checks.append({
                "property_id": pid,
                "quick_cmd": "./check %s --tier quick" % pid,
                "thorough_cmd": "./check %s --tier thorough" % pid,
                "evidence_file": "/verif/evidence/%s.json" % pid,
                "replay_cmd_template": "./check %s --replay {path}" % pid,
                "engine": "coq-model+correspondence",
                "level_claimed": {"category": "proof", "text": c["text"], "design_ref": c["design_ref"]},
                "level_note": c.get("note", TB),
                "technique": c["technique"],
            })
        else:
            na.append({"property_id": pid, "reason": NOT_YET})
    m = {
        "version": 1,
        "setup_cmd": "./setup.sh",
        "hooks": {
            "guard": "halotrade_zone_halotrade_contracts_verif",
            "enable": "RUSTFLAGS=\"--cfg halotrade_zone_halotrade_contracts_verif\" (set by ./check and ./setup.sh; no source hook exists, every item the harness calls is already pub)",
            "baseline_off_cmd": "cd /repo && cargo test --workspace --no-fail-fast --offline",
            "source_commits": [],
            "add_only": True,
        },
        "engines": [{
            "name": "coq-model+correspondence",
            "path": "/verif/coq, /verif/harness, /verif/gen, /verif/check",
            "serves_properties": sorted(CLAIMED),
            "kind_free_text": "Coq 8.16 development (model, proofs, property theorems, executable checkers) + Rust harness running the real code + python driver",
        }],
        "checks": checks,
        "not_applicable": na,
        "notes": "All properties are decided by machine-checked proof in Coq over a hand-written model tied to /repo by a differential correspondence check; see DESIGN.md.",
    }
    with open(os.path.join(ROOT, "MANIFEST.json"), "w") as f:
        json.dump(m, f, indent=1)
    print("wrote MANIFEST.json with %d checks, %d not_applicable" % (len(checks), len(na)))


if __name__ == "__main__":
    main()
