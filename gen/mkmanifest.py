#!/usr/bin/env python3
"""Regenerate MANIFEST.json from the table below (kept next to the checks so the two stay in step)."""
import json
import os

ROOT = os.path.dirname(os.path.dirname(os.path.abspath(__file__)))

TB = ("Trusted: Coq 8.16.1 kernel (coqc, vm_compute; no native_compute), no axioms (Print Assumptions is checked "
      "on every run against an empty allow-list), the hand-written Gallina model, the Rust harness + python "
      "generators + Exec/Cases.v checkers that tie it to /repo by differential correspondence; third-party code "
      "(bigint, cosmwasm-std, cw20-base, cw-multi-test) is modelled, not verified.")

TECH = "Coq proof over a hand-written Gallina model (closed-form lemma + lia/nia); model-vs-code differential correspondence evaluated inside coqc (vm_compute)"

CLAIMED = {
    "C01": dict(
        text="Coq theorems C01_fn (outside the recorded class kf_c01: paid <= y*a/(x+a), reserve product does not fall, ask reserve stays positive), "
             "C01_fn_window_exact (the class is exactly the violating set), C01_refuted / C01_drain_refuted (witnesses, known finding KF-ceil-window) "
             "over the model of compute_swap for all 128-bit operands and rates in [0,1]; tied to the real compute_swap by the differential "
             "correspondence; witnesses replayed on the real code every run.  System-level statement is covered by the world family when built.",
        design_ref="DESIGN.md section 8 (C01), section 9"),
    "C05": dict(
        text="Coq theorems C05_share (m = min_i floor(d_i*T/r_i) as a sandwich) and C05_first (whitelist, minimums, floor sqrt) over the model of "
             "calculate_lp_token_amount_to_user; tied to the real function by the differential correspondence.  PARTIAL: the ledger-level half "
             "(exact deposits pulled, reserved unit, zero-share rejection) needs the world model.",
        design_ref="DESIGN.md section 8 (C05)"),
    "C06": dict(
        text="Coq theorems C06_band / C06_commission / C06_commission_stays / C06_sum / C06_mono / C06_ok_iff over the "
             "model of compute_swap for all 128-bit operands and all rates in [0,1]; the model is tied to "
             "haloswap::formulas::compute_swap by a differential correspondence run (boundary-directed + random) on "
             "every invocation, and the property's decidable checker is also evaluated on the implementation's outputs.",
        design_ref="DESIGN.md section 8 (C06)"),
    "C08": dict(
        text="One Coq theorem per Uint256/Decimal256 operator of math.rs (exact_or_abort: succeeds exactly under the stated no-abort condition with "
             "the floor-rounded mathematical value given as a sandwich, aborts otherwise), uniqueness of the floor and no-wrap, limb-level "
             "widening/narrowing; tied to the real operators on a structured operand grid.  PARTIAL: bigint::U256's limb algorithms are third-party "
             "code modelled as exact arithmetic, tied by the grid only.",
        design_ref="DESIGN.md section 8 (C08)"),
    "C10": dict(
        text="Coq theorems C10_belief_sound / _sound_rational / _complete, C10_spread_sound / _complete, C10_abort_set, C10_normalise over the "
             "model of assert_max_spread for all 128-bit amounts, all 18-digit limits and all decimals; tied to the real guard by boundary-searched "
             "differential cases over the decimals matrix.  System level (which decimals/amounts the pair passes) via the world family.",
        design_ref="DESIGN.md section 8 (C10)"),
    "C12": dict(
        text="Coq theorems C12_reverse (offer = floor(x*y/(y-t)) - x with the grossed-up ask t inside its rounding bound), C12_reverse_never_above, "
             "C12_reverse_closed_form (exact abort set) over the model of compute_offer_amount; tied to the real function by the differential "
             "correspondence.  PARTIAL: forward quote = execution and the router folds need the world model.",
        design_ref="DESIGN.md section 8 (C12)"),
    "C15": dict(
        text="Coq theorems C15_sound, C15_complete, C15_over_100, C15_no_abort, C15_absent over the model of assert_slippage_tolerance for all "
             "128-bit deposits/reserves and all tolerances; tied to the real guard by boundary-searched differential cases.  System level "
             "(reserves net of the native deposit) via the world family.",
        design_ref="DESIGN.md section 8 (C15)"),
    "C16": dict(
        text="Coq theorems C16_sym, C16_inj (key equality => same unordered set over any prefix-free identifier universe), C16_refuted (KF-key-concat witness), "
             "C16_same_asset_rejected, C16_duplicate_rejected, C16_create_lookup and C16_hist (any history of creation attempts: created sets resolve in either order "
             "to their own record, all others to nothing) over the storage-level model of pair_key/PAIRS; tied to the real pair_key and PAIRS map on MockStorage.  "
             "PARTIAL: record = pair self-description, true decimals and live-asset checks need the world model.",
        design_ref="DESIGN.md section 8 (C16), section 9"),
    "C19": dict(
        text="Coq theorems C19_page, C19_walk (for every sorted registry with records under their own keys and every page size >= 1 or absent, the client walk's pages "
             "concatenate to exactly the registered entries and the next page is empty; induction over the unbounded list), C19_no_duplicates, C19_page_size, "
             "C19_default_page, C19_insert_sorted over the model of read_pairs/calc_range_start; tied to the real read_pairs on MockStorage with full walks and "
             "every-cursor pages.  The defect found here was repaired in /repo (fix: aa4409b).",
        design_ref="DESIGN.md section 8 (C19), section 9"),
}
for _v in CLAIMED.values():
    _v.setdefault("technique", TECH)

NOT_YET = "check not built yet in this development (work in progress; see DESIGN.md section 11 build order)"


def main():
    props = [json.loads(l) for l in open(os.path.join(ROOT, "properties.jsonl"))]
    checks, na = [], []
    for p in props:
        pid = p["id"]
        if pid in CLAIMED:
            c = CLAIMED[pid]
            checks.append({
                "property_id": pid,
                "quick_cmd": "./check %s --tier quick" % pid,
                "thorough_cmd": "./check %s --tier thorough" % pid,
                "evidence_file": "/verif/evidence/%s.json" % pid,
                "replay_cmd_template": "./check %s --replay {path}" % pid,
                "engine": "coq-model+correspondence",
                "level_claimed": {"category": "proof", "text": c["text"], "design_ref": c["design_ref"]},
                "level_note": c.get("note", TB),
                "technique": c["technique"],
            })
        else:
            na.append({"property_id": pid, "reason": NOT_YET})
    m = {
        "version": 1,
        "setup_cmd": "./setup.sh",
        "hooks": {
            "guard": "halotrade_zone_halotrade_contracts_verif",
            "enable": "RUSTFLAGS=\"--cfg halotrade_zone_halotrade_contracts_verif\" (set by ./check and ./setup.sh; no source hook exists, every item the harness calls is already pub)",
            "baseline_off_cmd": "cd /repo && cargo test --workspace --no-fail-fast --offline",
            "source_commits": [],
            "add_only": True,
        },
        "engines": [{
            "name": "coq-model+correspondence",
            "path": "/verif/coq, /verif/harness, /verif/gen, /verif/check",
            "serves_properties": sorted(CLAIMED),
            "kind_free_text": "Coq 8.16 development (model, proofs, property theorems, executable checkers) + Rust harness running the real code + python driver",
        }],
        "checks": checks,
        "not_applicable": na,
        "notes": "All properties are decided by machine-checked proof in Coq over a hand-written model tied to /repo by a differential correspondence check; see DESIGN.md.",
    }
    with open(os.path.join(ROOT, "MANIFEST.json"), "w") as f:
        json.dump(m, f, indent=1)
    print("wrote MANIFEST.json with %d checks, %d not_applicable" % (len(checks), len(na)))


if __name__ == "__main__":
    main()
