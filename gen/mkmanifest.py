#!/usr/bin/env python3
"""Regenerate MANIFEST.json from the table below (kept next to the checks so the two stay in step)."""
import json
import os

ROOT = os.path.dirname(os.path.dirname(os.path.abspath(__file__)))

TB = ("Trusted: Coq 8.16.1 kernel (coqc, vm_compute; no native_compute), no axioms (Print Assumptions is checked "
      "on every run against an empty allow-list), the hand-written Gallina model, the Rust harness + python "
      "generators + Exec/Cases.v checkers that tie it to /repo by differential correspondence; third-party code "
      "(bigint, cosmwasm-std, cw20-base, cw-multi-test) is modelled, not verified.")

CLAIMED = {
    "C06": dict(
        text="Coq theorems C06_band / C06_commission / C06_commission_stays / C06_sum / C06_mono / C06_ok_iff over the "
             "model of compute_swap for all 128-bit operands and all rates in [0,1]; the model is tied to "
             "haloswap::formulas::compute_swap by a differential correspondence run (boundary-directed + random) on "
             "every invocation, and the property's decidable checker is also evaluated on the implementation's outputs.",
        design_ref="DESIGN.md section 8 (C06)",
        technique="Coq proof (closed-form lemma + nia) over a hand-written Gallina model; model-vs-code differential correspondence evaluated inside coqc",
    ),
}

NOT_YET = "check not built yet in this development (work in progress; see DESIGN.md section 11 build order)"


def main():
    props = [json.loads(l) for l in open(os.path.join(ROOT, "properties.jsonl"))]
    checks, na = [], []
    for p in props:
        pid = p["id"]
        if pid in CLAIMED:
            c = CLAIMED[pid]
            checks.append({
                "property_id": pid,
                "quick_cmd": "./check %s --tier quick" % pid,
                "thorough_cmd": "./check %s --tier thorough" % pid,
                "evidence_file": "/verif/evidence/%s.json" % pid,
                "replay_cmd_template": "./check %s --replay {path}" % pid,
                "engine": "coq-model+correspondence",
                "level_claimed": {"category": "proof", "text": c["text"], "design_ref": c["design_ref"]},
                "level_note": c.get("note", TB),
                "technique": c["technique"],
            })
        else:
            na.append({"property_id": pid, "reason": NOT_YET})
    m = {
        "version": 1,
        "setup_cmd": "./setup.sh",
        "hooks": {
            "guard": "halotrade_zone_halotrade_contracts_verif",
            "enable": "RUSTFLAGS=\"--cfg halotrade_zone_halotrade_contracts_verif\" (set by ./check and ./setup.sh; no source hook exists, every item the harness calls is already pub)",
            "baseline_off_cmd": "cd /repo && cargo test --workspace --no-fail-fast --offline",
            "source_commits": [],
            "add_only": True,
        },
        "engines": [{
            "name": "coq-model+correspondence",
            "path": "/verif/coq, /verif/harness, /verif/gen, /verif/check",
            "serves_properties": sorted(CLAIMED),
            "kind_free_text": "Coq 8.16 development (model, proofs, property theorems, executable checkers) + Rust harness running the real code + python driver",
        }],
        "checks": checks,
        "not_applicable": na,
        "notes": "All properties are decided by machine-checked proof in Coq over a hand-written model tied to /repo by a differential correspondence check; see DESIGN.md.",
    }
    with open(os.path.join(ROOT, "MANIFEST.json"), "w") as f:
        json.dump(m, f, indent=1)
    print("wrote MANIFEST.json with %d checks, %d not_applicable" % (len(checks), len(na)))


if __name__ == "__main__":
    main()
