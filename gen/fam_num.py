"""Case generators for the Uint256 / Decimal256 operators of packages/bignumber/src/math.rs."""
from fw import Case
from numgen import D, W64, W128, W256, grid256, grid128, rand_limbs, loguniform

BINOPS = ["u_add", "u_addassign", "u_sub", "u_mul", "u_muldec", "d_muluint", "u_divdec",
          "d_add", "d_addassign", "d_sub", "d_mul", "d_div", "d_from_ratio"]


def binop_case(op, a, b, stream):
    return Case(op, [a, b], [("%s %d %d" % (op, a, b), "n")], stream)


def cmp_case(op, a, b, stream):
    return Case(op, [a, b], [("%s %d %d" % (op, a, b), "nl")], stream)


def boundary_partner(rng, a):
    """values b that put a+b, a*b, a*D/b ... next to 2^256"""
    out = [a, a + 1, max(0, a - 1), W256 - 1 - a, W256 - a if a > 0 else 0]
    if a > 0:
        out += [W256 // a, W256 // a + 1, max(0, W256 // a - 1), (W256 - 1) // a]
        out += [W256 // (a * D) if a * D < W256 else 0]
    return [v for v in out if 0 <= v < W256]


def num_cases(rng, tier):
    g = grid256()
    cases = []
    if tier == "quick":
        sub = rng.sample(g, 26) + [0, 1, D, W128, W256 - 1, W64, W64 - 1]
        npairs, nrand = 130, 40
    else:
        sub = g[::2] + [0, 1, D, W128, W256 - 1]
        npairs, nrand = 4000, 1500
    pairs = set()
    # every grid value against the pivots
    for a in g:
        for b in (0, 1, D, W128, W256 - 1):
            pairs.add((a, b))
            pairs.add((b, a))
    pairs = list(pairs)
    # zero on either or both sides is where the shortcuts and the zero-divisor aborts live: always kept
    zero_pairs = [(0, 0)] + [(v, 0) for v in (1, 2, D, W128, W256 - 1)] + [(0, v) for v in (1, 2, D, W128, W256 - 1)]
    # values whose low limb(s) are zero or that sit on a limb boundary, against small multipliers and the pivots:
    # where "fast paths" keyed on one limb go wrong
    limbv = [W64, 2 * W64, 18 * 10 ** 18, W64 + 10 ** 18, W128, W128 + W64, 1 << 192,
             (W64 - 1) << 64, (1 << 192) + W64, 3 * W128, 5 * 10 ** 18 + W64 * 7, 10 ** 18 * W64]
    limb_pairs = [(a, b) for a in limbv for b in (2, 3, 1000, D, W128, 7 * D + 1)]
    limb_pairs += [(b, a) for (a, b) in limb_pairs]
    # products whose raw 256-bit value sits in a chosen residue class modulo 10^18 (exactly representable, one atomic
    # unit above, one below: ...000, ...001, ...999) at several magnitudes up to the top of the range: where a rescaling
    # by 10^18 that is not the exact floor (reciprocal multiplication, rounding) shows.  Always kept (C08-agent6 was
    # caught in the quick tier only when the sample happened to contain (10^77 - 1, 1)).
    residue_pairs = [(10 ** k + e, 1) for k in (18, 19, 38, 39, 58, 59, 76, 77) for e in (-1, 0, 1)]
    for top in (W256 - 1, (W256 * 3) // 5, (W256 * 7) // 10, 1 << 255, (1 << 255) - 1, 1 << 200, W128 * D):
        for r in (0, 1, D - 1, D // 2):
            x0 = top - ((top - r) % D)
            for b in (1, 3, 7, 9, D + 1, 10 ** 9 + 7):
                x = x0 - ((x0 * pow(D, -1, b)) % b) * D      # the nearest x below x0 in the residue class that b divides
                if x > 0 and x % b == 0:
                    residue_pairs.append((x // b, b))
    residue_pairs += [(b, a) for (a, b) in residue_pairs]
    # quotient boundaries of the ratio operators: denominators chosen so that n*10^18/d is exactly q, just above and just
    # below it, for q = 1 (one atomic unit: the smallest non-zero result), 2 and 10^18, with nominators of ragged bits
    # wider than one limb (C08-agent16: a "below resolution" shortcut judged on the leading 64 bits of both operands)
    quot_pairs = []
    noms = [W64 + 12345, 34492435058212663309, 10 ** 28 + 7, rand_limbs(rng, 2) | 1, rand_limbs(rng, 3) | 1, 10 ** 40 - 1]
    if tier == "thorough":
        noms += [rand_limbs(rng, k) | 1 for k in (1, 2, 2, 3, 3) for _ in range(6)] + [10 ** k + 3 for k in range(19, 58, 3)]
    for n_ in noms:
        for q_ in (1, 2, D) if tier == "quick" else (1, 2, 3, 10, D - 1, D, D + 1):
            d0 = n_ * D // q_
            for d_ in (d0 - 1, d0, d0 + 1):
                if 0 < d_ < W256 and n_ < W256:
                    quot_pairs.append((n_, d_))
    residue_pairs += quot_pairs
    if tier == "quick":
        pairs = zero_pairs + limb_pairs + residue_pairs + rng.sample(pairs, 260)
    else:
        pairs = zero_pairs + limb_pairs + residue_pairs + pairs
    cross = [(a, b) for a in sub for b in sub]
    if len(cross) > npairs * 4:
        cross = rng.sample(cross, npairs * 4)
    bnd = []
    for a in rng.sample(g, min(len(g), npairs // 4)):
        for b in boundary_partner(rng, a):
            bnd.append((a, b))
    rnd = [(rand_limbs(rng), rand_limbs(rng)) for _ in range(nrand)]
    rnd += [(loguniform(rng, 1, 255), loguniform(rng, 1, 255)) for _ in range(nrand)]
    for op in BINOPS:
        for (a, b) in pairs:
            cases.append(binop_case(op, a, b, "directed-grid"))
        for (a, b) in (cross if tier == "thorough" else rng.sample(cross, min(len(cross), npairs))):
            cases.append(binop_case(op, a, b, "directed-grid"))
        for (a, b) in (bnd if tier == "thorough" else rng.sample(bnd, min(len(bnd), 60))):
            cases.append(binop_case(op, a, b, "directed-boundary"))
        for (a, b) in (rnd if tier == "thorough" else rng.sample(rnd, 50)):
            cases.append(binop_case(op, a, b, "random"))
    # limb grids for the DIVIDING operators: every nominator whose four limbs come from {0, 1, 2^64-1} against every divisor of
    # exactly three limbs from the same set (thorough: divisors of two and four limbs too).  Hand-written multi-limb division
    # goes wrong on its rare correction steps, which random operands reach with probability 2^-63 and structured limbs reach
    # at once (C08-agent18: Knuth D with a lost carry in the add-back step)
    import itertools
    lv = (0, 1, W64 - 1)
    noms_ = [a | (b << 64) | (c << 128) | (d << 192) for a, b, c, d in itertools.product(lv, repeat=4)]
    divs_ = [a | (b << 64) | (c << 128) for a, b, c in itertools.product(lv, lv, (1, W64 - 1))]
    if tier == "thorough":
        divs_ += [a | (b << 64) for a, b in itertools.product(lv, (1, W64 - 1))]
        divs_ += [a | (b << 64) | (c << 128) | (d << 192) for a, b, c, d in itertools.product(lv, lv, lv, (1, W64 - 1))]
    for n_ in noms_:
        for d_ in divs_:
            if n_ > 0:
                for op in ("d_from_ratio", "d_div", "u_divdec"):
                    cases.append(binop_case(op, n_, d_, "directed-grid"))
    # ternary multiply_ratio
    tri = []
    for _ in range(120 if tier == "quick" else 4000):
        u, n = rng.choice(g), rng.choice(g)
        d = rng.choice([0, 1, 2, D, rng.choice(g), rand_limbs(rng), max(1, u), max(1, n)])
        tri.append((u, n, d))
    tri += [(0, 0, 0), (0, 5, 0), (5, 0, 0), (0, 0, 7), (5, 7, 0)]
    for _ in range(0):
        if u > 0:
            tri.append((u, W256 // u, d))
            tri.append((u, W256 // u + 1, d))
    for (u, n, d) in tri:
        if n < W256 and d < W256:
            cases.append(Case("u_mulratio", [u, n, d], [("u_mulratio %d %d %d" % (u, n, d), "n")], "directed-grid"))
    # unary
    for v in g + [W256 // D, W256 // D + 1]:
        if v < W256:
            cases.append(Case("d_from_uint", [v], [("d_from_uint %d" % v, "n")], "directed-grid"))
            cases.append(Case("u_to_u128", [v], [("u_to_u128 %d" % v, "n")], "directed-grid"))
            cases.append(Case("u_to_uint128", [v], [("u_to_uint128 %d" % v, "n")], "directed-grid"))
    for v in grid128() + [rand_limbs(rng, 2) for _ in range(40)]:
        cases.append(Case("u_from_u128", [v], [("u_from_u128 %d" % v, "nl")], "directed-grid"))
        cases.append(Case("u_from_uint128", [v], [("u_from_uint128 %d" % v, "nl")], "directed-grid"))
    for v in [0, 1, 2, 99, 100, 101, 999, 1000, 1001, W64 - 1, W64 - 2, 1 << 63, 18446744073709551, 184467440737095516]:
        cases.append(Case("u_from_u64", [v], [("u_from_u64 %d" % v, "nl")], "directed-grid"))
        cases.append(Case("d_percent", [v], [("d_percent %d" % v, "n")], "directed-grid"))
        cases.append(Case("d_permille", [v], [("d_permille %d" % v, "n")], "directed-grid"))
    # comparisons
    cp = [(a, b) for a in rng.sample(g, 25) for b in (a, a + 1 if a + 1 < W256 else a, max(0, a - 1), rng.choice(g))]
    cp += [(a, a ^ (1 << (64 * k))) for a in rng.sample(g, 20) for k in range(4)]   # differ in one limb only
    for (a, b) in cp:
        if b < W256:
            cases.append(cmp_case("u_cmp", a, b, "directed-grid"))
            cases.append(cmp_case("d_cmp", a, b, "directed-grid"))
    return cases
