"""Framework shared by all property checks: building the Coq development and the
Rust harness against /repo's current tree, running cases on both sides, the
violation protocol and the evidence writer.  See DESIGN.md sections 6 and 7."""
import concurrent.futures
import fcntl
import hashlib
import json
import os
import random
import re
import subprocess
import sys
import time

ROOT = os.path.dirname(os.path.dirname(os.path.abspath(__file__)))
COQ = os.path.join(ROOT, "coq")
HARNESS_DIR = os.path.join(ROOT, "harness")
# two builds of the same harness: "deploy" mirrors the semantics of /repo's release profile (debug assertions OFF, overflow
# checks ON - what the deployed wasm runs), "debug" is the profile `cargo test` uses (debug assertions ON).  World histories
# run on the deploy build; function-level families run on both and every difference between the two is judged by the model.
HARNESS_BIN = os.path.join(HARNESS_DIR, "target", "deploy", "ht-harness")
HARNESS_BIN_DEV = os.path.join(HARNESS_DIR, "target", "debug", "ht-harness")
BUILD = os.path.join(ROOT, "build")
REPLAYS = os.path.join(ROOT, "replays")
EVIDENCE = os.environ.get("HT_EVIDENCE_DIR") or os.path.join(ROOT, "evidence")   # seeded-change trials write theirs elsewhere
KNOWN_FINDINGS = os.path.join(ROOT, "KNOWN_FINDINGS.txt")
HOOK_CFG = "halotrade_zone_halotrade_contracts_verif"

ENV = dict(os.environ)
ENV["CARGO_NET_OFFLINE"] = "true"
ENV["RUSTFLAGS"] = (ENV.get("RUSTFLAGS", "") + " --cfg " + HOOK_CFG).strip()

ERR_KINDS = {
    "panic": "Panic",
    "std": "EStd",
    "unauthorized": "EUnauthorized",
    "asset_mismatch": "EAssetMismatch",
    "max_spread": "EMaxSpread",
    "max_slippage": "EMaxSlippage",
    "zero_amount": "EZeroAmount",
}

AXIOM_ALLOWLIST = set()  # standard-library axioms we accept; none are needed so far


def log(*a):
    print(*a, file=sys.stderr, flush=True)


class Lock:
    def __init__(self, name):
        os.makedirs(BUILD, exist_ok=True)
        self.path = os.path.join(BUILD, name)

    def __enter__(self):
        self.f = open(self.path, "w")
        fcntl.flock(self.f, fcntl.LOCK_EX)
        return self

    def __exit__(self, *a):
        fcntl.flock(self.f, fcntl.LOCK_UN)
        self.f.close()


# --------------------------------------------------------------------------
# Coq side
# --------------------------------------------------------------------------
def ensure_makefile():
    mk = os.path.join(COQ, "Makefile")
    cp = os.path.join(COQ, "_CoqProject")
    if not os.path.exists(mk) or os.path.getmtime(mk) < os.path.getmtime(cp):
        subprocess.run(["coq_makefile", "-f", "_CoqProject", "-o", "Makefile"], cwd=COQ,
                       check=True, stdout=subprocess.DEVNULL, stderr=subprocess.DEVNULL)


def coq_make(targets, timeout=1500):
    """make the given .vo targets (full .vo build).  Returns (ok, output)."""
    with Lock("coq.lock"):
        ensure_makefile()
        try:
            p = subprocess.run(["make", "-j16"] + targets, cwd=COQ, stdout=subprocess.PIPE,
                               stderr=subprocess.STDOUT, text=True, timeout=timeout)
            return p.returncode == 0, p.stdout
        except subprocess.TimeoutExpired as e:
            return False, "TIMEOUT\n" + (e.stdout or "")


FORBIDDEN = re.compile(
    r"\b(Admitted|admit|Axiom|Axioms|Parameter|Parameters|Conjecture|Conjectures|"
    r"Admit\s+Obligations|bypass_check|give_up)\b|Unset\s+Guard|Unset\s+Positivity|"
    r"Unset\s+Universe\s+Checking|type-in-type|impredicative-set")
SECTION_ONLY = re.compile(r"^\s*(Variable|Variables|Hypothesis|Hypotheses|Context)\b")


def strip_comments(src):
    out, depth, i = [], 0, 0
    while i < len(src):
        if src.startswith("(*", i):
            depth += 1
            i += 2
        elif src.startswith("*)", i) and depth > 0:
            depth -= 1
            i += 2
        else:
            if depth == 0:
                out.append(src[i])
            elif src[i] == "\n":
                out.append("\n")
            i += 1
    return "".join(out)


def scan_development():
    """grep the whole development for anything that would declare an axiom or
    switch a kernel check off.  Returns a list of 'file:line: text'."""
    bad = []
    files = [os.path.join(COQ, "_CoqProject")]
    for d, _, fs in os.walk(os.path.join(COQ, "theories")):
        files += [os.path.join(d, f) for f in fs if f.endswith(".v")]
    for f in sorted(files):
        src = strip_comments(open(f).read())
        depth = 0
        for ln, line in enumerate(src.split("\n"), 1):
            if re.match(r"^\s*Section\b", line):
                depth += 1
            if re.match(r"^\s*End\b", line) and depth > 0:
                depth -= 1
            if FORBIDDEN.search(line):
                bad.append("%s:%d: %s" % (os.path.relpath(f, ROOT), ln, line.strip()))
            if depth == 0 and SECTION_ONLY.match(line):
                bad.append("%s:%d: %s" % (os.path.relpath(f, ROOT), ln, line.strip()))
        # property files hold nothing but statements closed by `exact <lemma>` (Examples may compute)
        if os.sep + "Props" + os.sep in f:
            for m in re.finditer(r"\bTheorem\s+(\w+)\b.*?\bProof\.(.*?)\bQed\.", src, re.S):
                body = m.group(2).strip()
                if not re.fullmatch(r"exact\s+@?[\w.']+\s*\.", body):
                    bad.append("%s: theorem %s is not closed by a bare `exact <lemma>`" % (os.path.relpath(f, ROOT), m.group(1)))
    return bad


def check_props_file(prop, timeout=900):
    """Build Props/<prop>.vo and everything it depends on, then recompile the
    property file alone to capture its Print Assumptions report.
    Returns dict(ok, theorems=[(name, closed, axioms)], broken=[names], log)."""
    vfile = "theories/Props/%s.v" % prop
    res = {"ok": False, "theorems": [], "broken": [], "log": "", "cmd": ""}
    if not os.path.exists(os.path.join(COQ, vfile)):
        res["log"] = "no property file"
        res["broken"] = ["Props/%s.v (missing)" % prop]
        return res
    src = strip_comments(open(os.path.join(COQ, vfile)).read())
    names = re.findall(r"Print Assumptions\s+(\w+)\s*\.", src)
    ok, out = coq_make(["theories/Props/%s.vo" % prop, "theories/Exec/Cases.vo"], timeout)
    res["cmd"] = "make -C coq -j16 theories/Props/%s.vo && coqc -Q theories HT %s" % (prop, vfile)
    if not ok:
        res["log"] = out[-4000:]
        m = re.search(r'File "\./(theories/[^"]+)", line (\d+)', out)
        res["broken"] = ["%s (does not compile: %s)" % (prop, m.group(0) if m else "make failed")]
        return res
    os.makedirs(os.path.join(BUILD, prop), exist_ok=True)
    try:
        p = subprocess.run(["coqc", "-q", "-Q", "theories", "HT", "-w", "-notation-overridden",
                            "-o", os.path.join(BUILD, prop, prop + ".vo"), vfile],
                           cwd=COQ, stdout=subprocess.PIPE, stderr=subprocess.STDOUT, text=True,
                           timeout=timeout)
    except subprocess.TimeoutExpired:
        res["log"] = "TIMEOUT compiling property file"
        res["broken"] = [prop + " (timeout)"]
        return res
    if p.returncode != 0:
        res["log"] = p.stdout[-4000:]
        res["broken"] = [prop + " (property file does not compile)"]
        return res
    # one block per Print Assumptions, in order
    blocks = re.split(r"(?=Closed under the global context|Axioms:)", p.stdout)
    blocks = [b for b in blocks if b.startswith("Closed under") or b.startswith("Axioms:")]
    if len(blocks) != len(names):
        res["log"] = p.stdout[-4000:]
        res["broken"] = [prop + " (Print Assumptions report not understood)"]
        return res
    allok = True
    for name, b in zip(names, blocks):
        if b.startswith("Closed under"):
            res["theorems"].append((name, True, []))
        else:
            axs = re.findall(r"^(\S+)\s*:", b[len("Axioms:"):], re.M)
            good = all(a in AXIOM_ALLOWLIST for a in axs)
            res["theorems"].append((name, good, axs))
            if not good:
                allok = False
                res["broken"].append("%s (depends on %s)" % (name, ", ".join(axs)))
    res["ok"] = allok
    res["log"] = p.stdout[-2000:]
    return res


# --------------------------------------------------------------------------
# Rust side
# --------------------------------------------------------------------------
def _point_harness_at_repo():
    """HT_REPO=<dir> (used only for background sweeps on a snapshot of /repo) rewrites the path dependencies of the
    harness manifest; by default they point at /repo itself."""
    repo = os.environ.get("HT_REPO")
    if not repo:
        return
    mf = os.path.join(HARNESS_DIR, "Cargo.toml")
    src = open(mf).read()
    new = re.sub(r'path = "[^"]*/(packages|contracts)/', lambda m: 'path = "%s/%s/' % (repo.rstrip("/"), m.group(1)), src)
    if new != src:
        open(mf, "w").write(new)


def _big_stack():
    """coqc evaluates generated literals and long snapshot lists recursively: lift the stack limit for the child"""
    import resource
    try:
        resource.setrlimit(resource.RLIMIT_STACK, (resource.RLIM_INFINITY, resource.RLIM_INFINITY))
    except (ValueError, OSError):
        try:
            soft, hard = resource.getrlimit(resource.RLIMIT_STACK)
            resource.setrlimit(resource.RLIMIT_STACK, (hard, hard))
        except (ValueError, OSError):
            pass


HARNESS_DEGRADED = None
HARNESS_MISSING = set()      # names of the function-level calls the harness had to be built without
FN_CALLS = ["compute_swap", "compute_offer_amount", "lp_share", "max_spread", "slippage", "sent_native", "assert_ops"]


def build_harness(timeout=1500):
    """Build the harness (both profiles) against /repo.  The harness calls a few internal helper functions directly, one
    cargo feature per function; when the full build fails (a signature or a visibility changed), the calls that no longer
    compile are probed one by one and left out: HARNESS_MISSING names them, everything else keeps working."""
    _point_harness_at_repo()
    with Lock("cargo.lock"):
        lock_src = "/repo/Cargo.lock"
        lock_dst = os.path.join(HARNESS_DIR, "Cargo.lock")
        if not os.path.exists(lock_dst) and os.path.exists(lock_src):
            import shutil
            shutil.copy(lock_src, lock_dst)

        def cargo(extra):
            # the two profiles are independent builds: run them side by side
            cmds = [["cargo", "build", "--offline", "--quiet"] + extra,
                    ["cargo", "build", "--offline", "--quiet", "--profile", "deploy"] + extra]
            procs = [subprocess.Popen(c, cwd=HARNESS_DIR, env=ENV, stdout=subprocess.PIPE, stderr=subprocess.STDOUT, text=True)
                     for c in cmds]
            outs, rc = [], 0
            for q in procs:
                try:
                    o, _ = q.communicate(timeout=timeout)
                except subprocess.TimeoutExpired:
                    q.kill()
                    return None, "TIMEOUT"
                outs.append(o)
                rc = rc or q.returncode
            return rc, "\n".join(outs)
        rc, out = cargo([])
        if rc is None:
            return False, "TIMEOUT"
        global HARNESS_DEGRADED, HARNESS_MISSING
        HARNESS_DEGRADED = None
        HARNESS_MISSING = set()
        if rc != 0:
            def probe(feats):
                try:
                    q = subprocess.run(["cargo", "check", "--offline", "--quiet", "--no-default-features"]
                                       + (["--features", ",".join(feats)] if feats else []), cwd=HARNESS_DIR, env=ENV,
                                       stdout=subprocess.PIPE, stderr=subprocess.STDOUT, text=True, timeout=timeout)
                    return q.returncode == 0
                except subprocess.TimeoutExpired:
                    return False
            if not probe([]):
                return False, out[-6000:]
            good = [f for f in FN_CALLS if probe(["fn_" + f])]
            rc2, out2 = cargo(["--no-default-features"] + (["--features", ",".join("fn_" + f for f in good)] if good else []))
            if rc2 is None:
                return False, "TIMEOUT"
            if rc2 == 0:
                HARNESS_DEGRADED = out[-3000:]
                HARNESS_MISSING = set(FN_CALLS) - set(good)
                return True, out[-6000:]
            return False, out2[-6000:]
        return True, out[-6000:]


def run_harness(lines, timeout=1200, binary=None):
    """Feed lines to the harness, return one result string per line."""
    if not lines:
        return []
    p = subprocess.run([binary or HARNESS_BIN], input="\n".join(lines) + "\n", env=ENV,
                       stdout=subprocess.PIPE, stderr=subprocess.PIPE, text=True, timeout=timeout)
    outs = p.stdout.split("\n")
    if outs and outs[-1] == "":
        outs.pop()
    if p.returncode != 0 or len(outs) != len(lines):
        raise RuntimeError("harness failed: rc=%s, %d lines in, %d out; stderr=%s"
                           % (p.returncode, len(lines), len(outs), p.stderr[-2000:]))
    for l, o in zip(lines, outs):
        if o.startswith("BAD"):
            raise RuntimeError("harness rejected input %r: %s" % (l, o))
    return outs


# --------------------------------------------------------------------------
# Coq term printing
# --------------------------------------------------------------------------
def cq(v):
    """python value -> Coq term (N_scope)."""
    if v is None:
        return "None"
    if isinstance(v, bool):
        return "true" if v else "false"
    if isinstance(v, int):
        return "0x%x" % v
    if isinstance(v, bytes):
        return "[" + "; ".join("0x%x" % b for b in v) + "]"
    if isinstance(v, tuple) and len(v) == 2 and v[0] == "some":
        return "(Some %s)" % cq(v[1])
    if isinstance(v, tuple) and len(v) == 2 and v[0] == "raw":
        return v[1]
    if isinstance(v, tuple):
        return "(" + ", ".join(cq(x) for x in v) + ")"
    if isinstance(v, list):
        return "[" + "; ".join(cq(x) for x in v) + "]"
    raise TypeError("cq: %r" % (v,))


def unhex(s):
    return b"" if s == "_" else bytes.fromhex(s)


def hexs(b):
    return "_" if len(b) == 0 else b.hex()


def parse_result(rtype, out):
    """harness result line -> (python value for evidence, Coq term)."""
    toks = out.split()
    if toks[0] == "err":
        return ("err", toks[1]), "(Err %s)" % ERR_KINDS[toks[1]]
    assert toks[0] == "ok", out
    vals = toks[1:]
    if rtype == "unit":
        return ("ok",), "(Ok tt)"
    if rtype == "n":
        return ("ok", int(vals[0])), "(Ok %s)" % cq(int(vals[0]))
    if rtype == "n2":
        t = tuple(int(v) for v in vals[:2])
        return ("ok",) + t, "(Ok %s)" % cq(t)
    if rtype == "n3":
        t = tuple(int(v) for v in vals[:3])
        return ("ok",) + t, "(Ok %s)" % cq(t)
    if rtype == "nl":
        t = [int(v) for v in vals]
        return ("ok", t), "(Ok %s)" % cq(t)
    if rtype == "s":
        bs = unhex(vals[0])
        return ("ok", vals[0]), "(Ok %s)" % cq(bs)
    if rtype == "raw":
        return ("ok", " ".join(vals)), None
    raise ValueError(rtype)


class Case:
    """One correspondence case.  `checker` is the suffix of the Coq checker
    (chk_<prop>_<checker>), `args` the Coq-side arguments, `calls` the harness
    invocations [(line, rtype)] whose results are appended as further arguments."""
    __slots__ = ("checker", "args", "calls", "stream", "results", "note")

    def __init__(self, checker, args, calls, stream="random", note=None):
        self.checker = checker
        self.args = args
        self.calls = calls
        self.stream = stream
        self.results = None
        self.note = note

    def key(self):
        return hashlib.sha1(repr((self.checker, self.args, [c[0] for c in self.calls])).encode()).hexdigest()

    def term(self, prop):
        parts = ["chk_%s_%s" % (prop, self.checker)] + [cq(a) for a in self.args]
        for (line, rtype), out in zip(self.calls, self.results):
            parts.append(parse_result(rtype, out)[1])
        return "(" + " ".join(parts) + ")"

    def to_json(self):
        return {"checker": self.checker, "stream": self.stream,
                "calls": [c[0] for c in self.calls], "rtypes": [c[1] for c in self.calls],
                "args": enc(self.args),
                "implementation": self.results, "note": self.note}


def _jd(o):
    if isinstance(o, bytes):
        return {"bytes": o.hex()}
    raise TypeError


def enc(a):
    """JSON encoding of Coq-side arguments that keeps tuples, bytes and big ints apart."""
    if isinstance(a, bool) or a is None:
        return a
    if isinstance(a, int):
        return {"int": str(a)}
    if isinstance(a, bytes):
        return {"bytes": a.hex()}
    if isinstance(a, tuple):
        return {"tuple": [enc(x) for x in a]}
    if isinstance(a, list):
        return [enc(x) for x in a]
    if isinstance(a, str):
        return a
    raise TypeError(repr(a))


def dedupe(cases):
    seen, out = set(), []
    for c in cases:
        k = c.key()
        if k not in seen:
            seen.add(k)
            out.append(c)
    return out


CASE_HEADER = ("From HT Require Import Base.Prelude Num.Arith Num.Text Amm.Formulas Amm.Guards Amm.Known "
               "Reg.Registry World.World World.Observe World.Monitors Exec.Cases.\nOpen Scope N_scope.\n")

SUMMARY_RE = re.compile(r"=\s*\(\s*(\[[^\]]*\])\s*,\s*(\[[^\]]*\])\s*,\s*(\[[^\]]*\])\s*,\s*(\d+)\s*\)")


def _parse_list(s):
    s = s.strip()[1:-1].strip()
    if not s:
        return []
    return [int(x.replace("%N", "").strip()) for x in s.split(";")]


def _run_shard(args):
    path, timeout = args
    try:
        p = subprocess.run(["coqc", "-q", "-noglob", "-Q", os.path.join(COQ, "theories"), "HT", path], preexec_fn=_big_stack,
                           stdout=subprocess.PIPE, stderr=subprocess.STDOUT, text=True, timeout=timeout,
                           cwd=os.path.dirname(path))
    except subprocess.TimeoutExpired:
        return None, "TIMEOUT " + path
    if p.returncode != 0:
        return None, p.stdout[-3000:]
    m = SUMMARY_RE.search(" ".join(p.stdout.split()))
    if not m:
        return None, "unparsed: " + p.stdout[-2000:]
    return (_parse_list(m.group(1)), _parse_list(m.group(2)), _parse_list(m.group(3)), int(m.group(4))), ""


def run_coq_cases(prop, cases, workdir, tag, shard_size=250, timeout=900):
    """Evaluate all cases in Coq.  Returns dict with global indices."""
    os.makedirs(workdir, exist_ok=True)
    shards = []
    for si, start in enumerate(range(0, len(cases), shard_size)):
        chunk = cases[start:start + shard_size]
        name = "cases_%s_%s_%d" % (prop, tag, si)
        path = os.path.join(workdir, name + ".v")
        with open(path, "w") as f:
            f.write(CASE_HEADER)
            f.write("Definition vs : list verdict := [\n")
            f.write(";\n".join(c.term(prop) for c in chunk))
            f.write("\n].\nEval vm_compute in (summarize vs).\n")
        shards.append((start, path))
    res = {"disagree": [], "propfail": [], "known": [], "nontrivial": 0, "errors": []}
    with concurrent.futures.ThreadPoolExecutor(max_workers=16) as ex:
        outs = list(ex.map(_run_shard, [(p, timeout) for _, p in shards]))
    for (start, path), (r, errmsg) in zip(shards, outs):
        if r is None:
            res["errors"].append(errmsg)
            continue
        d, pf, k, n = r
        res["disagree"] += [start + i for i in d]
        res["propfail"] += [start + i for i in pf]
        res["known"] += [start + i for i in k]
        res["nontrivial"] += n
        for ext in (".v", ".vo", ".vok", ".vos", ".glob"):
            try:
                os.remove(path[:-2] + ext)
            except OSError:
                pass
    return res


def run_both(prop, cases, workdir, tag):
    """Run cases on the implementation and in Coq."""
    lines = [c[0] for case in cases for c in case.calls]
    outs = run_harness(lines)
    outs_dev = run_harness(lines, binary=HARNESS_BIN_DEV) if lines else []
    i = 0
    differ = []
    for k, case in enumerate(cases):
        n = len(case.calls)
        case.results = outs[i:i + n]
        if n and outs_dev[i:i + n] != case.results:
            differ.append((k, outs_dev[i:i + n]))
        i += n
    res = run_coq_cases(prop, cases, workdir, tag)
    if differ:
        # the two build profiles of the SAME source behave differently on these inputs (a debug assertion, a cfg on the
        # profile): the model judges the debug-profile behaviour as well; verdicts are attributed to the same case
        import copy
        alt = []
        for k, r in differ:
            c = copy.copy(cases[k])
            c.results = r
            c.note = ((c.note + "; ") if getattr(c, "note", None) else "") + "behaviour of the debug-profile build (differs from the deploy-profile build)"
            alt.append(c)
        r2 = run_coq_cases(prop, alt, workdir, tag + "_dev")
        res["errors"] += r2["errors"]
        for key in ("disagree", "propfail", "known"):
            for j in r2[key]:
                k = differ[j][0]
                if k not in res[key]:
                    res[key].append(k)
        res["profile_differences"] = len(differ)
    return res


def coq_eval(exprs, workdir, tag="eval", timeout=300):
    """Evaluate a few closed Coq expressions, return their printed values."""
    os.makedirs(workdir, exist_ok=True)
    path = os.path.join(workdir, "eval_%s.v" % tag)
    with open(path, "w") as f:
        f.write(CASE_HEADER)
        for e in exprs:
            f.write("Eval vm_compute in (%s).\n" % e)
    try:
        p = subprocess.run(["coqc", "-q", "-noglob", "-Q", os.path.join(COQ, "theories"), "HT", path], preexec_fn=_big_stack,
                           stdout=subprocess.PIPE, stderr=subprocess.STDOUT, text=True, timeout=timeout,
                           cwd=workdir)
    except subprocess.TimeoutExpired:
        return ["TIMEOUT"] * len(exprs)
    parts = re.split(r"^\s*=\s", p.stdout, flags=re.M)[1:]
    vals = [" ".join(x.split()) for x in parts]
    vals = [re.sub(r"\s*:\s*[^:]*$", "", v) for v in vals]
    for ext in (".v", ".vo", ".vok", ".vos", ".glob"):
        try:
            os.remove(path[:-2] + ext)
        except OSError:
            pass
    if len(vals) != len(exprs):
        return [p.stdout[-500:]] * len(exprs)
    return vals


# --------------------------------------------------------------------------
# known findings
# --------------------------------------------------------------------------
def load_known_findings(prop):
    out = []
    if not os.path.exists(KNOWN_FINDINGS):
        return out
    for line in open(KNOWN_FINDINGS):
        line = line.strip()
        if not line or line.startswith("#"):
            continue
        kind, _, rest = line.partition(":")
        fields = dict(re.findall(r"(\w+)=(\"[^\"]*\"|\S+)", rest))
        if fields.get("property") != prop:
            continue
        fields = {k: v.strip('"') for k, v in fields.items()}
        fields["kind"] = kind.strip()
        fields["line"] = line
        out.append(fields)
    return out


# --------------------------------------------------------------------------
# the check driver
# --------------------------------------------------------------------------
class PropertyCheck:
    """Subclass per property.  Required attributes / methods:
         pid, title, families(rng, tier) -> [(family_name, [Case])]
         search(rng, tier, suspects) -> [(family_name, [Case])]   (optional)
         witnesses() -> {finding_id: Case}                         (optional)
    """
    pid = None
    technique = "Coq proof over hand-written model + differential correspondence"
    rule = ""
    modelled = []

    def families(self, rng, tier):
        raise NotImplementedError

    search_rounds = 2
    search_tier = "thorough"

    def search(self, rng, tier, suspects):
        # default: fresh, larger samples from the same generators
        fams = []
        for k in range(self.search_rounds):
            r2 = SeedRng(rng.getrandbits(64))
            fams += self.families(r2, self.search_tier if tier == "quick" else tier)
        return fams

    def witnesses(self):
        return {}

    def describe_known(self, finding):
        return finding.get("what", finding.get("id", ""))


class SeedRng(random.Random):
    """the generator stream of one check run; `sub(name)` gives every family its own stream, derived from the run's seed and
    the family's name only, so that what one family generates does not depend on how much randomness the families before it
    consumed (a directed case must not disappear because an unrelated generator changed)"""

    def __init__(self, seed):
        random.Random.__init__(self, seed)
        self._base = seed

    def sub(self, name):
        h = hashlib.sha1(("%s/%s" % (self._base, name)).encode()).digest()
        return SeedRng(int.from_bytes(h[:8], "big"))


def write_replay(prop, payload):
    os.makedirs(REPLAYS, exist_ok=True)
    h = hashlib.sha1(json.dumps(payload, sort_keys=True, default=_jd).encode()).hexdigest()[:12]
    path = os.path.join(REPLAYS, "%s-%s.json" % (prop, h))
    with open(path, "w") as f:
        json.dump(payload, f, indent=1, default=_jd)
    return path


def model_value(case, prop, workdir):
    """Ask Coq for the verdict record of one case (for replay files)."""
    t = case.term(prop)
    return coq_eval([t], workdir, "replay")[0]


def main_check(chk, argv):
    import argparse
    ap = argparse.ArgumentParser()
    ap.add_argument("--tier", default=os.environ.get("VERIF_TIER", "quick"))
    ap.add_argument("--replay", default=None)
    ap.add_argument("--seed", type=int, default=None)
    a = ap.parse_args(argv)
    tier = a.tier if a.tier in ("quick", "thorough") else "quick"
    seed = a.seed if a.seed is not None else int(os.environ.get("VERIF_SEED", "20260930") or 0)
    prop = chk.pid
    t0 = time.time()
    workdir = os.path.join(BUILD, prop)
    os.makedirs(workdir, exist_ok=True)
    os.makedirs(EVIDENCE, exist_ok=True)
    rng = SeedRng(seed)

    if a.replay:
        return replay(chk, a.replay, workdir)

    violations = []        # (replay_path, suffix)
    broken = []            # names of theorems / families that no longer check
    notes = []

    # 1. proof side
    bad = scan_development()
    pr = check_props_file(prop)
    if bad:
        broken += ["forbidden construct: " + b for b in bad]
    if not pr["ok"]:
        broken += pr["broken"] or [prop + " (proof check failed)"]
        log("PROOF SIDE BROKEN:\n" + pr["log"][-1500:])
    coqchk_report = None
    if tier == "thorough" and pr["ok"]:
        # independent checker: re-checks the compiled property file and everything it depends on
        try:
            cp = subprocess.run(["coqchk", "-o", "-silent", "-Q", "theories", "HT", "HT.Props.%s" % prop], cwd=COQ,
                                stdout=subprocess.PIPE, stderr=subprocess.STDOUT, text=True, timeout=1800)
            m = re.search(r"\* Axioms:(.*?)\n\s*\n\* Constants", cp.stdout, re.S)
            axs = (m.group(1).strip() if m else "unparsed")
            coqchk_report = {"exit": cp.returncode, "axioms": axs}
            if cp.returncode != 0 or axs != "<none>":
                broken.append("coqchk: exit %d, axioms: %s" % (cp.returncode, axs[:300]))
        except subprocess.TimeoutExpired:
            coqchk_report = {"exit": "timeout"}
            notes.append("coqchk timed out")
    n_thm = len(pr["theorems"])
    n_thm_ok = sum(1 for t in pr["theorems"] if t[1]) if pr["ok"] or pr["theorems"] else 0

    # 2. implementation side
    ok, out = build_harness()
    if ok and HARNESS_DEGRADED:
        log("HARNESS BUILT WITHOUT ITS DIRECT CALLS TO %s:\n%s" % (sorted(HARNESS_MISSING), HARNESS_DEGRADED[-2000:]))
    if not ok:
        log("HARNESS BUILD FAILED:\n" + out[-3000:])
        broken.append("harness does not build against /repo (correspondence unavailable)")
        fams = []
    else:
        try:
            fams = chk.families(rng, tier)
        except Exception as e:  # a generator that cannot cope with the implementation's behaviour is a broken tie
            import traceback
            log(traceback.format_exc()[-1500:])
            broken.append("case generation failed against the current /repo: %r" % (e,))
            fams = []

    # Direct calls the harness had to be built without (a signature or the visibility of an internal helper changed): the
    # cases that need them cannot run.  The function is still reached through the contracts' entry points, so the families
    # that drive the entry points are run at the size of the thorough tier instead; only when a property is left with no
    # family at all is the tie reported broken.
    lost_calls = {}
    if ok and HARNESS_MISSING and fams:
        def usable(c):
            return not any(call[0].split()[0] in HARNESS_MISSING for call in c.calls)
        kept = []
        for fname, cases in fams:
            good = [c for c in cases if usable(c)]
            if len(good) != len(cases):
                lost_calls[fname] = len(cases) - len(good)
            if good:
                kept.append((fname, good))
        if lost_calls:
            log("cases that need the missing direct calls: %r; entry-point families run at thorough size instead" % lost_calls)
            if tier != "thorough":
                try:
                    big = chk.families(SeedRng(seed), "thorough")
                    bigw = {fn: [c for c in cs if usable(c)] for fn, cs in big if cs and all(not c.calls for c in cs)}
                    kept = [(fn, bigw.get(fn, cs)) for fn, cs in kept]
                except Exception as e:
                    notes.append("fallback generation failed: %r" % (e,))
            notes.append("function-level calls unavailable (%s): %d case(s) skipped, entry-point families enlarged"
                         % (", ".join(sorted(HARNESS_MISSING)), sum(lost_calls.values())))
            if not any(all(not c.calls for c in cs) for _, cs in kept):
                broken.append("the harness no longer builds with its direct calls to %s and the property has no "
                              "entry-point family to fall back on" % sorted(HARNESS_MISSING))
        fams = kept

    fam_stats, all_cases, samples = [], [], []
    evaluations = nontrivial = 0
    known_hits = 0
    found_concrete = False
    stream_hist = {}
    outcome_hist = {}

    def process(fams, phase):
        nonlocal evaluations, nontrivial, known_hits, found_concrete
        suspects = []
        for fname, cases in fams:
            cases = [c for c in dedupe(cases) if not any(call[0].split()[0] in HARNESS_MISSING for call in c.calls)]
            if not cases:
                continue
            try:
                r = run_both(prop, cases, workdir, re.sub(r"\W", "_", fname) + "_" + phase)
            except RuntimeError as e:
                broken.append("family %s: %s" % (fname, str(e)[:300]))
                fam_stats.append({"family": fname, "phase": phase, "cases": len(cases), "error": str(e)[:300]})
                continue
            evaluations += len(cases)
            nontrivial += r["nontrivial"]
            known_hits += len(r["known"])
            for c in cases:
                stream_hist[c.stream] = stream_hist.get(c.stream, 0) + 1
                if hasattr(c, "h"):
                    for stp in c.h.steps:
                        k = "%s:%s:%s" % (fname, stp[0][0] + ("/" + stp[0][5][0] if stp[0][0] == "send" else "/" + stp[0][6][0] if stp[0][0] == "send_from" else ""), "ok" if stp[1] else "fail")
                        outcome_hist[k] = outcome_hist.get(k, 0) + 1
                for o in c.results:
                    k = " ".join(o.split()[:2]) if o.startswith("err") else "ok"
                    outcome_hist[fname + ":" + k] = outcome_hist.get(fname + ":" + k, 0) + 1
            st = {"family": fname, "phase": phase, "cases": len(cases), "nontrivial": r["nontrivial"],
                  "disagreements": len(r["disagree"]), "property_failures": len(r["propfail"]),
                  "known_class_hits": len(r["known"]), "coq_errors": r["errors"][:2]}
            fam_stats.append(st)
            if r["errors"]:
                broken.append("family %s: coqc failed on a shard: %s" % (fname, r["errors"][0][:300]))
            if phase == "main" and len(samples) < 8:
                for c in cases[:2]:
                    samples.append(c.to_json())
            for i in r["propfail"][:5]:
                c = cases[i]
                found_concrete = True
                path = write_replay(prop, {
                    "property": prop, "seed": seed, "family": fname, "phase": phase,
                    "property_failed": True, "case": c.to_json(),
                    "model_verdict": model_value(c, prop, workdir),
                    "broken_obligation": None})
                violations.append((path, ""))
            if r["disagree"]:
                broken.append("correspondence family %s: model and implementation differ on %d case(s)"
                              % (fname, len(r["disagree"])))
                for i in r["disagree"][:5]:
                    suspects.append((fname, cases[i]))
        return suspects

    suspects = process(fams, "main")

    # 3. known findings: replay every recorded witness on the real code
    kf_lines = []
    stale = []
    kfs = load_known_findings(prop)
    wit = chk.witnesses() if ok else {}
    wit = {k: c for k, c in wit.items() if not any(call[0].split()[0] in HARNESS_MISSING for call in c.calls)}
    for f in kfs:
        if f["kind"] != "finding":
            continue
        c = wit.get(f.get("id"))
        if c is None:
            kf_lines.append("KNOWN-FINDING: property=%s %s" % (prop, f.get("what", f.get("id"))))
            continue
        r = run_both(prop, [c], workdir, "kf")
        if r["known"] == [0]:
            kf_lines.append("KNOWN-FINDING: property=%s %s" % (prop, f.get("what", f.get("id"))))
        elif r["propfail"] == [0]:
            found_concrete = True
            path = write_replay(prop, {"property": prop, "seed": seed, "family": "known-finding witness",
                                       "property_failed": True, "case": c.to_json(),
                                       "note": "witness fails outside its recorded class"})
            violations.append((path, ""))
        else:
            stale.append(f.get("id"))
    # fixed: entries suppress nothing; their witnesses are ordinary corpus cases.

    # 4. violation protocol: something broke but no concrete failing input yet -> search
    if broken and not found_concrete and ok:
        log("searching for a concrete failing input (%d broken item(s)) ..." % len(broken))
        try:
            extra = chk.search(rng, tier, suspects)
            process(extra, "search")
        except Exception as e:  # the search itself must never mask the report
            notes.append("search failed: %r" % (e,))
    if broken and not found_concrete:
        sus = [{"family": f, "case": c.to_json(), "model_verdict": model_value(c, prop, workdir)}
               for f, c in suspects[:3]] if ok else []
        path = write_replay(prop, {"property": prop, "seed": seed, "property_failed": False,
                                   "broken_obligation": broken[:10], "suspects": sus,
                                   "proof_log": pr["log"][-1500:]})
        violations.append((path, " no-failing-input-found"))

    # 5. evidence
    n_fam = len({s["family"] for s in fam_stats if s["phase"] == "main"})
    n_fam_ok = len({s["family"] for s in fam_stats if s["phase"] == "main"}
                   - {s["family"] for s in fam_stats
                      if s.get("disagreements") or s.get("error") or s.get("coq_errors")})
    wall = time.time() - t0
    ev = {
        "property_id": prop, "tier": tier, "seed": seed, "level": "proof",
        "coverage": {
            "obligations": n_thm + n_fam,
            "discharged": (n_thm_ok if not bad else 0) + n_fam_ok,
            "theorems": [{"name": t[0], "closed": t[1], "axioms": t[2]} for t in pr["theorems"]],
            "coqchk": coqchk_report,
            "checker_cmd": pr["cmd"] + " ; coqc (vm_compute) over generated cases_*.v shards ; "
                           "cargo build --offline in harness/ (path deps on /repo)",
            "trusted_base": [
                "Coq 8.16.1 kernel (coqc); vm_compute used for the correspondence shards and the "
                "non-vacuity/witness examples; native_compute not used",
                "axioms: none (Print Assumptions: Closed under the global context for every theorem listed)"
                if all(not t[2] for t in pr["theorems"]) else
                "axioms: " + ", ".join(sorted({a for t in pr["theorems"] for a in t[2]})),
                "hand-written Gallina model (coq/theories/{Num,Amm,Reg,World}); tied to /repo by the "
                "correspondence families below, not by translation",
                "Rust harness /verif/harness (calls the real functions/contracts, catch_unwind), python "
                "generators/serialisers in /verif/gen, checker functions in coq/theories/Exec/Cases.v",
                "the harness is built in two profiles of the SAME source: deploy (debug assertions off, overflow checks on, as "
                "/repo's release profile) runs the world histories and every function-level case, debug (what cargo test "
                "uses) runs every function-level case again; hook payloads are written as wire-level JSON",
                "no extraction is used"] + list(chk.modelled),
            "evaluations": evaluations,
            "distinct_nontrivial": nontrivial,
            "rule": chk.rule,
            "samples": samples[:8] if samples else [{"note": "no correspondence cases ran"}],
            "families": fam_stats,
            "streams": stream_hist,
            "outcomes": outcome_hist,
            "known_class_hits": known_hits,
            "stale_known_findings": stale,
            "broken": broken[:20],
            "missing_direct_calls": sorted(HARNESS_MISSING),
            "cases_skipped_for_missing_calls": lost_calls,
            "forbidden_constructs": bad[:20],
        },
        "assumptions": list(getattr(chk, "assumptions", [])),
        "wall_s": round(wall, 2),
        "violations": len(violations),
        "notes": notes,
    }
    with open(os.path.join(EVIDENCE, prop + ".json"), "w") as f:
        json.dump(ev, f, indent=1, default=_jd)

    for l in kf_lines:
        print(l)
    if violations:
        for path, suffix in violations[:5]:
            print("VIOLATION property=%s replay=%s%s" % (prop, path, suffix))
        return 1
    print("OK property=%s tier=%s theorems=%d/%d families=%d/%d cases=%d nontrivial=%d known_hits=%d wall=%.1fs"
          % (prop, tier, n_thm_ok, n_thm, n_fam_ok, n_fam, evaluations, nontrivial, known_hits, wall))
    return 0


def replay(chk, path, workdir):
    data = json.load(open(path))
    prop = chk.pid
    ok, out = build_harness()
    if not ok:
        print("harness does not build")
        return 1
    coq_make(["theories/Exec/Cases.vo"])
    cj = data.get("case") or (data.get("suspects") or [{}])[0].get("case")
    if not cj:
        print("replay file names broken obligations only:", data.get("broken_obligation"))
        pr = check_props_file(prop)
        print("proof side ok:", pr["ok"], pr["broken"])
        return 0 if pr["ok"] else 1
    if cj.get("checker") == "hist":
        import fam_world
        c = fam_world.replay_hist(cj)       # re-runs the operations on the real contracts
        r = run_coq_cases(prop, [c], workdir, "replay")
        tr = coq_eval([c.trace_term(prop)], workdir, "trace")[0]
        rows = re.findall(r"\((\d+), (true|false), (true|false), (true|false), (true|false)\)", tr)
        for (i, mok, iok, agree, mon), st in zip(rows, c.h.steps):
            if not (mok == iok and agree == "true" and mon == "true"):
                print("step %s: model_ok=%s impl_ok=%s snapshots_agree=%s monitor=%s  %s"
                      % (i, mok, iok, agree, mon, fam_world.op_line(st[0])[:160]))
        print("agree=%s property_ok=%s known_class=%s" % (not r["disagree"], not r["propfail"] and not r["known"],
                                                          bool(r["known"])))
        if r["propfail"] or r["disagree"]:
            print("VIOLATION property=%s replay=%s%s" % (prop, path, "" if r["propfail"] else " no-failing-input-found"))
            return 1
        return 0
    args = _unjson_args(cj["args"])
    c = Case(cj["checker"], args, list(zip(cj["calls"], cj["rtypes"])), cj.get("stream", "replay"))
    r = run_both(prop, [c], workdir, "replay")
    print("implementation:", c.results)
    print("model verdict :", model_value(c, prop, workdir))
    print("agree=%s property_ok=%s known_class=%s" % (not r["disagree"], not r["propfail"] and not r["known"],
                                                      bool(r["known"])))
    if r["propfail"]:
        print("VIOLATION property=%s replay=%s" % (prop, path))
        return 1
    return 0


def _unjson_args(a):
    if isinstance(a, dict) and "bytes" in a:
        return bytes.fromhex(a["bytes"])
    if isinstance(a, dict) and "int" in a:
        return int(a["int"])
    if isinstance(a, dict) and "tuple" in a:
        return tuple(_unjson_args(x) for x in a["tuple"])
    if isinstance(a, list):
        return [_unjson_args(x) for x in a]
    return a
