#!/usr/bin/env python3
"""Regenerate the 'families per property' block of DESIGN.md (between the FAMILIES markers) from gen/props/*.py."""
import glob, os, re
ROOT = os.path.dirname(os.path.dirname(os.path.abspath(__file__)))
rows = []
for f in sorted(glob.glob(os.path.join(ROOT, "gen", "props", "C*.py"))):
    src = open(f).read()
    pid = os.path.basename(f)[:-3]
    i = src.index("def families")
    fams = re.findall(r'\("([a-z_]+\.[A-Za-z_.]+)"\s*,', src[i:])
    rows.append("| %s | %s |" % (pid, ", ".join(fams)))
block = "| id | correspondence families run by `./check` (in order) |\n|---|---|\n" + "\n".join(rows) + "\n"
p = os.path.join(ROOT, "DESIGN.md")
s = open(p).read()
a = s.index("<!-- FAMILIES-BEGIN -->") + len("<!-- FAMILIES-BEGIN -->")
b = s.index("<!-- FAMILIES-END -->")
open(p, "w").write(s[:a] + "\n" + block + s[b:])
print("families table with", len(rows), "rows")
