#!/usr/bin/env python3
"""debug helper: ./gen/trace.py <replay.json> [prop]  -> per-step agreement trace of the first suspect history"""
import json, sys, os
sys.path.insert(0, os.path.dirname(os.path.abspath(__file__)))
import fw, fam_world
d = json.load(open(sys.argv[1]))
prop = sys.argv[2] if len(sys.argv) > 2 else d["property"]
cj = d.get("case") or d["suspects"][0]["case"]
c = fam_world.replay_hist(cj)
out = fw.coq_eval([c.trace_term(prop)], os.path.join(fw.BUILD, "trace"), "trace")[0]
import re
rows = re.findall(r"\((\d+), (true|false), (true|false), (true|false), (true|false)\)", out)
for (i, mok, iok, agree, mon), st in zip(rows, c.h.steps):
    flag = "" if (mok == iok and agree == "true" and mon == "true") else "   <<<<<<"
    print(i, "model_ok=%s impl_ok=%s snap_agree=%s monitor=%s" % (mok, iok, agree, mon), fam_world.op_line(st[0])[:150], flag)
