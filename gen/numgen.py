"""Number generators: the structured operand grid, log-uniform randoms, boundary solvers."""
D = 10 ** 18
W64 = 2 ** 64
W128 = 2 ** 128
W256 = 2 ** 256


def isqrt(n):
    import math
    return math.isqrt(n)


def grid256():
    """Structured 256-bit operands: limb boundaries, powers of ten, scaling constants."""
    g = {0, 1, 2, 3, 7, 9, 10, 11}
    for i in (1, 2, 3):
        for d in (-1, 0, 1):
            g.add(2 ** (64 * i) + d)
    for k in (31, 32, 63, 127, 128, 129, 191, 255):
        for d in (-1, 0, 1):
            g.add(2 ** k + d)
    g.add(W256 - 1)
    g.add(W256 - 2)
    for k in range(0, 78):
        for d in (-1, 0, 1):
            v = 10 ** k + d
            if 0 <= v < W256:
                g.add(v)
    for d in (-1, 0, 1):
        g.add(D + d)
        g.add(W256 // D + d)
        g.add(isqrt(W256 - 1) + d)
        g.add(W128 // D + d)
        g.add(W256 // (D * D) + d)
    # limb patterns
    ones = W64 - 1
    g.add(ones | (ones << 128))
    g.add((ones << 64) | (ones << 192))
    g.add(0xAAAAAAAAAAAAAAAAAAAAAAAAAAAAAAAAAAAAAAAAAAAAAAAAAAAAAAAAAAAAAAAA)
    g.add(0x5555555555555555555555555555555555555555555555555555555555555555)
    g.add(1 << 192)
    g.add((1 << 192) - 1)
    g.add((W64 - 1) << 64)
    g.add(W128 + W64)
    return sorted(v for v in g if 0 <= v < W256)


def grid128():
    return [v for v in grid256() if v < W128]


def loguniform(rng, lo_bits=0, hi_bits=127):
    """log-uniform magnitude: pick a bit length, then a value of that length."""
    b = rng.randint(lo_bits, hi_bits)
    if b == 0:
        return rng.choice([0, 1])
    return rng.randrange(1 << (b - 1), 1 << b)


def rand_limbs(rng, nlimbs=4):
    """random value with random limb masks (each limb 0, all-ones, small, or random)."""
    v = 0
    for i in range(nlimbs):
        k = rng.randrange(5)
        limb = [0, W64 - 1, rng.randrange(4), rng.randrange(W64), (1 << 63)][k]
        v |= limb << (64 * i)
    return v


def rates(rng, n=6):
    """commission / spread style rates in atomics of 10^-18, in [0, 1]."""
    base = [0, 1, D - 1, D, 3 * 10 ** 15, 3 * 10 ** 16, 3 * 10 ** 17, 5 * 10 ** 17, 10 ** 15]
    out = list(base)
    for _ in range(n):
        out.append(rng.randrange(D + 1))
        # few significant digits
        k = rng.randrange(1, 18)
        out.append(rng.randrange(10 ** k) * 10 ** (18 - k))
    return [r for r in out if 0 <= r <= D]


def clamp128(v):
    return max(0, min(W128 - 1, v))
