#!/usr/bin/env python3
"""gen/mkprompt.py Cxx [workdir]  ->  prints the prompt handed to an independent mutation sub-agent.

The agent is given ONLY the property text (copied to <workdir>.txt) and its own scratch worktree; the list of
"already known ideas" is built from seeded/*/meta.json summaries so that a new batch explores new ground.
"""
import glob
import json
import os
import sys

ROOT = os.path.dirname(os.path.dirname(os.path.abspath(__file__)))

GENERIC = (
    "AssetInfo::equal compared by printed string (kinds conflated); case-insensitive comparison of denoms or addresses; "
    "anything keyed on code ids or pair migration; reading a cw20 token's raw storage; treating \"LP supply <= 1\" like an "
    "empty pool; counters of LP holders; behaving differently when the caller is a contract; clamping a subtraction that "
    "used to abort in compute_swap; selecting registry records by key prefix/suffix; length limits on denoms; i128/u8 casts "
    "of amounts or lengths; a refactored receiver / `to` helper; skipping a guard on zero return; early returns placed above "
    "a permission check; wrapping overflow instead of aborting; refunding or subtracting extra attached coins in swap(); "
    "burning the pair's own idle LP; guards keyed on first-provision minimums at withdrawal; Send instead of Transfer for "
    "refunds; anything that only acts when two different asset sets share one registry key; a single attached coin of the "
    "wrong denom; token-factory style denoms naming the caller; aliasing the router / pair / LP token as receiver; tiny "
    "first provisions; amounts or cumulative payouts beyond 2^128; unfunded provisions on a funded pair; a parser or table "
    "wrong for one number of fractional digits; assert! turned into debug_assert! (release-profile-only behaviour); a second, "
    "stale copy of the asset decimals or of the LP supply kept in the pair's storage; internal router messages accepted when "
    "'prepaid'; dust top-ups of very deep pools; wrong ordering of values above 2^128; a hook naming less than the amount sent; "
    "0 used as a 'not registered' sentinel; page limits (30) applied to a listing other than the pairs; a counterfeit token "
    "whose minter is the pair; callers whose address the codec cannot canonicalise; a nested Receive envelope as hook payload; "
    "the spread handed to the guard clamped; simulation refusing near the reserve-product cap; limb-wise Display with early exit; "
    "a from_ratio shortcut judged on leading bits; whitelists hundreds of addresses long; a solvency check in front of withdrawals; "
    "unrelated coins held by the router; a withdraw hook relayed by a pool asset token; TransferFrom-based direct cw20 swaps; "
    "anything keyed on block height or time; an empty whitelist read as 'anyone'; a check skipped for token-first pairs; the "
    "minimum-receive assertion skipped when an up-front quote clears it; the pair keeping the last unit of a reserve; page size 0; "
    "slippage captured for the factory when both swap limits are given; a zero-commission fast path; swap() picking the pool side "
    "with if/else only; refunds collected with take_while; the guard given gross instead of net return; the chain-level admin "
    "accepted as owner; serde through a borrowed &str (JSON escapes); hand-written multi-limb division; the factory's Pair query "
    "answering in the caller's order; message order used where pool order is meant; route length limits (5 hops); Display "
    "abbreviating long identifiers; duplicate CreatePair allowed when the whitelist is empty; a waiver of the funds check when a "
    "receiver is named; a dust-withdrawal / dust close-out special case; the wire spelling of hook messages; Ord for asset infos "
    "differing from byte order; a deployer bypass of the whitelist on stand-alone pairs; a reciprocal of a truncated price; "
    "trimming trailing zeros of a numeral; AssertMinimumReceive accepted when the caller is the receiver; rescaling the "
    "first-provision minimums on re-registration; a fast path comparing truncated ratios in the LP share; idle balances paid out by "
    "the first provision; the LP token's display name echoed into attributes; a refund of unused attached coins by the router; "
    "de-duplication of listing pages by a rendered asset set; dropping the hops before a return to the entry asset; a guard on "
    "the gap between decimals that skips the pair's update; funds checks through a Decimal ratio; a K-must-not-shrink guard paying "
    "one unit less than reported; equal reserves used instead of the LP supply; the reported spread replaced by the belief "
    "shortfall; a reverse-simulation guard at the top of the feasible range; a relay exception for coin-carrying hooks; "
    "messages dropped when a refund Response replaces the built one; zero-fraction shortcuts in the decimal parser"
)


def main():
    pid = sys.argv[1]
    wd = sys.argv[2] if len(sys.argv) > 2 else "/tmp/mut/" + pid
    prop = None
    for line in open(os.path.join(ROOT, "properties.jsonl")):
        j = json.loads(line)
        if j["id"] == pid:
            prop = j
    known = []
    for m in sorted(glob.glob(os.path.join(ROOT, "seeded", pid + "-*", "meta.json"))):
        s = json.load(open(m)).get("summary") or ""
        if s:
            known.append("- " + s[:260])
    anchors = ", ".join(prop["anchors"]["files"])
    txt = f"""You are a careful Rust/CosmWasm engineer doing mutation analysis. You have your OWN scratch git worktree of the repository halotrade-zone/halotrade-contracts at `{wd}` (a CosmWasm constant-product AMM: `packages/bignumber`, `packages/haloswap`, `contracts/halo-pair`, `contracts/halo-factory`, `contracts/halo-router`). Work ONLY inside `{wd}` (plus reading the property text below). Do NOT read or touch `/verif`, `/repo`, or other `/tmp/mut/*` directories. No network: build with `CARGO_NET_OFFLINE=true cargo test --workspace --offline` (first build takes a couple of minutes). IMPORTANT: never use `git stash` (the stash is shared between worktrees of one repository and other engineers are working in sibling worktrees); to test "without the change" use `git diff > file` and `git apply -R file` / `git apply file`.

The property under study is in the file `{wd}.txt` - read it first (id {pid}, "{prop['title']}"). The code it is anchored in: {anchors} - but a change anywhere in the non-test sources that breaks the property is fair game (shared helpers in packages/haloswap and packages/bignumber, message definitions, the other contracts).

Already known ideas, do NOT reuse these or close variants of them:
{chr(10).join(known)}
- {GENERIC}

TASK: produce ONE small, realistic source change (the kind of thing a well-meaning refactor, optimisation, "fix" or feature tweak would introduce) that (1) still compiles, (2) leaves the existing test suite passing unchanged (`cargo test --workspace --offline` must still pass: 101 tests), and (3) BREAKS the property for SOME inputs, configurations or histories in a way that is HARD TO NOTICE: it must need something specific to manifest (a particular magnitude, residue, asset kind or position, ordering of calls, combination of optional fields, interplay of two actors, a particular entry point among several equivalent ones, a boundary value, a multi-step sequence of operations, two cooperating sites that each look fine alone...), and behave exactly like the original everywhere else. Prefer a change whose wrong behaviour is a WRONG RESULT or a WRONG ACCEPT/REJECT decision over a crash. Think about which situations an automated checker that drives the contracts with generated scenarios would be least likely to generate, and aim there. Do not edit tests, Cargo files or anything outside non-test source code.

Also write a DEMONSTRATION: a new Rust test (a new file wired into an existing `src/tests/` module of the most convenient crate; cw-multi-test integration tests with `env_setup` in contracts/halo-router/src/tests are available, as are plain unit tests) that FAILS with your change and PASSES without it, and which asserts the property itself as stated (not just a pinned number). Verify both directions yourself.

DELIVERABLES, all inside `{wd}/_out/`: `patch.diff` (the source change only: `git diff` of non-test sources, applicable with `git apply` at the repo root), `demo.diff` (the demonstration files only, including the `mod` line that wires it in), and `meta.json` with fields: property ("{pid}"), summary, needs, existing_tests ("N passed" with the change applied), demo_with_change ("fails: ..."), demo_without_change ("passes"), commands. Leave the worktree with BOTH the change and the demo applied (do not `git add` anything). Reply with a short summary of the change, what it needs to manifest, and confirmation of the three checks."""
    json.dump(prop, open(wd + ".txt", "w"), indent=1)
    print(txt)


if __name__ == "__main__":
    main()
